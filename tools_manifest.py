#!/usr/bin/env python3
"""Regenerates MANIFEST.json from the table below (keeps it valid at all times)."""
import json, sys
BASE = json.load(open('/root/.vp/BASELINE.json'))['cmd']
CHECKS = {
 'C02': dict(level='model_checking',
   text='Exhaustive enumeration of every thread schedule (preemption/deviation-bounded DFS under a controlled scheduler that owns every lock, atomic, channel, select and timer operation of the real samber/ro code) of closed 2-producer drivers for every multi-source, time-driven, hand-off operator, safe constructor, Serialize, Share and every subject kind, alone and in chains; oracle: a counter inside every observer callback (which itself contains a yield) never exceeds 1. A coverage statement, not a sample: no schedule within the bound overlaps two callbacks.',
   note='Scheduling points only at synchronisation operations (plain racy accesses are C13); two producers, scripts of <= 3 notifications, deviation bound 2 (bare) / 1 (chains) quick, 3 / 2 thorough; virtual time.',
   technique='stateless model checking of the implementation (controlled scheduler, deviation-bounded DFS over schedules)', ref='§5 C02'),
}
COMMON_NOTE='Bounded: values over a 2-letter alphabet, scripts up to the stated length, pairs of operators (no longer chains); sequential cases run one execution each on the instrumented build (non-termination = step horizon). Reference models are executable Go definitions written from the doc comments / docs/data, validated against the unchanged tree.'
CHECKS.update({
 'C01': dict(level='model_checking', text='Exhaustive enumeration of all producer scripts (legal and illegal) up to a bounded length over every catalogue operator, every ordered pair of chainable operators and every constructor mode, run on the real code; grammar monitor on the final observer plus a differential clause (script vs its legal prefix) and the dropped-notification hook count.', note=COMMON_NOTE, technique='exhaustive bounded enumeration of input scripts on the implementation (explicit-state, sequential) + schedule exploration for concurrent emitters', ref='§5 C01'),
 'C03': dict(level='model_checking', text='Every operator/pair x every legal script x every cut position (outside and inside a callback), exhaustively, with per-source teardown counters, a blocked-thread census from the controlled scheduler and a virtual-timer census as oracle.', note=COMMON_NOTE, technique='exhaustive bounded enumeration of scripts and cut points on the implementation under the controlled scheduler', ref='§5 C03'),
 'C04': dict(level='model_checking', text='Every operator configuration and every ordered pair x every legal script up to the bound, exhaustively, compared notification by notification with an executable reference model (on a cold source and after every push on a pushed source).', note=COMMON_NOTE, technique='exhaustive bounded input enumeration against an executable reference model', ref='§5 C04'),
 'C08': dict(level='model_checking', text='Every synchronous operator/pair x every legal script pushed step by step: output due (per reference model) must be present when each Next returns, on the caller thread, with no goroutine spawned (the scheduler counts spawns).', note=COMMON_NOTE, technique='exhaustive bounded input enumeration with per-step oracle; schedule exploration for hand-off operators', ref='§5 C08'),
 'C09': dict(level='model_checking', text='Every operator, operator behind ContextWithValue, and ordered pair x every legal script with context markers at three levels; every callback context inspected.', note=COMMON_NOTE, technique='exhaustive bounded input enumeration with context-marker oracle', ref='§5 C09'),
 'C12': dict(level='model_checking', text='Every operator/pair x every legal script: re-subscription x3 vs fresh pipeline, subscription counters, and one operator value applied to three sources in all six orders vs fresh twins.', note=COMMON_NOTE, technique='exhaustive bounded enumeration of scripts, re-subscription histories and application orders (differential against a fresh instance)', ref='§5 C12'),
})
CHECKS['C07'] = dict(level='fault_enumeration', text='Fault enumeration on the real code: a fault-free run discovers every user-callback slot of the operator and its invocation count; then every (slot, invocation index, fault kind) is injected, one per execution, plus every notification index of the final observer and every position of the subscribe function; trace-shape oracle (prefix, exactly one matching Error, nothing after), no escaped or goroutine-top panic (the controlled runtime records what would have crashed the process), follow-up subscription usable.', note=COMMON_NOTE+' One fault per execution (no pairs of faults yet); invocation index capped at 3.', technique='exhaustive fault-position enumeration over operator x script x callback slot x invocation index x fault kind', ref='§5 C07')
CHECKS['C10'] = dict(level='model_checking', text='Explicit-state search over all operation sequences up to a depth on the real subjects, each step compared with an executable sequential definition; plus exhaustive schedule exploration of 2-3 threads issuing operations from several initial states, with a brute-force linearizability check (two linearization points for Unsubscribe, two for async completion) against the same definition.', note='Depth 5/6, 2/3 observers, two values, buffer sizes 1, 2, unlimited; concurrent part: 1-2 operations per thread, deviation bound 2/3; read-only operations (CountObservers etc.) are compared in the sequential part only.', technique='explicit-state search over operation sequences on the implementation + stateless schedule exploration with linearizability oracle', ref='§5 C10')
CHECKS['C05'] = dict(level='model_checking', text='Exhaustive enumeration of every interleaving of every tuple of bounded source scripts on one thread (each notification processed to quiescence) against an executable state-machine definition of each multi-source operator; then the same scripts on one thread per source under every schedule within the deviation bound, with a set-valued oracle: the outcome must be the definition\'s outcome for some interleaving.', note='2 sources (3 for the n-ary ones with shorter scripts), scripts <= 2/3 values, deviation bound 2/3; the concurrent oracle assumes each notification of a source is atomic with respect to the definition.', technique='exhaustive enumeration of arrival orders + stateless schedule exploration with a set-valued reference-model oracle', ref='§5 C05')
CHECKS['C11'] = dict(level='model_checking', text='Explicit-state search over all event sequences (subscribe, unsubscribe, source notifications, connect, disconnect) up to a depth for every flag/connector combination of Share and connectable observables, compared step by step with a reference model (traces, live upstream subscriptions, total upstream subscriptions); plus exhaustive schedule exploration of concurrent subscribe/unsubscribe/connect/notify programs with invariants.', note='Depth 5/7, 2 subscribers, two values; the concurrent part checks invariants (at most one open upstream subscription, no panic/deadlock, grammar, order), not full linearizability.', technique='explicit-state search over event sequences on the implementation + stateless schedule exploration', ref='§5 C11')
CHECKS['C06'] = dict(level='model_checking', text='Sequential: every operator/pair x script x cut position (outside / inside a callback) with IsClosed, repeated Unsubscribe, Wait and silence afterwards. Concurrent: producer, 0-2 unsubscribers and 1-2 waiters as managed threads on nine pipelines, every schedule within the deviation bound, oracles on logical timestamps taken by the scheduler.', note='3 values, <= 4 threads, deviation bound 2/3 (1/2 with four threads); emission time = the moment the producer issues Next.', technique='exhaustive cut-point enumeration + stateless schedule exploration with logical-time oracles', ref='§5 C06')
CHECKS['C14'] = dict(level='model_checking', text='Never-ending pushed source -> operator -> early-terminating downstream for every pass-through operator, the blocking/multi-source/hand-off/sharing operators and pairs of blocking operators, six terminators, each cut position; Subscribe on its own managed thread; after the terminator fired nothing is pushed and the scheduler\'s quiescence is the observation point: source released, Subscribe returned, no library thread left, later push reaches nothing. Plus context cancellation of the context-aware sources under the virtual clock.', note='Deviation bound 1/2; cut positions 1-2 / 1-3; the whole waits-inside-Subscribe class is a recorded known finding (151 signatures).', technique='stateless schedule exploration of the implementation with a quiescence oracle', ref='§5 C14')
CHECKS['C15'] = dict(level='model_checking', text='All sequences of attempt outcomes up to a bounded number of attempts x every configuration of the re-subscribing operators (retry counts, flags, delays, repeat counts, every truth sequence of loop conditions, fallback counts), played synchronously and from a spawned thread under all schedules, against a reference model of trace and subscription count, with open-attempt overlap and release clauses; context cancellation inside each attempt.', note='Attempts <= 3/4, outcomes of <= 1/2 values, deviation bound 1 for asynchronous attempts; virtual clock for retry delays.', technique='exhaustive enumeration of attempt-outcome histories and configurations against a reference model, schedule exploration for asynchronous attempts', ref='§5 C15')
CHECKS['C16'] = dict(level='model_checking', text='All time-driven operators on a virtual clock owned by the scheduler: every input timeline over a gap grid around the configured duration, Unsubscribe at every grid instant, every schedule within the deviation bound where an early timer expiry relative to thread progress is a deviation; oracles are lower bounds on virtual time and order/count relations taken from the statement.', note='Durations 1u-3u, timelines of <= 2/3 items, deviation bound 1/2; virtual time only (real timer granularity is out of scope).', technique='stateless model checking with a virtual clock (timer-vs-thread orders enumerated)', ref='§5 C16')
CHECKS['C17'] = dict(level='model_checking', text='ToChannel and FromChannel under the controlled scheduler with channel shims that count closes and sends on closed channels: every capacity, script, consumer behaviour and unsubscribe point, all schedules within the deviation bound including the virtual 1 ms sleep inside ToChannel; Collect and Materialize/Dematerialize round trips over all bounded scripts.', note='Capacities 0-2, scripts <= 2/3 values, deviation bound 2/3; consumers are managed threads using the same channel shims as the library.', technique='stateless schedule exploration (threads, channels, virtual timers) + exhaustive script enumeration', ref='§5 C17')
NA = {}
ALL = ['C%02d' % i for i in range(1, 21)]
m = {
 'version': 1,
 'setup_cmd': 'bin/setup',
 'hooks': {
   'guard': 'verif',
   'enable': 'no hook lines are committed to /repo: bin/check regenerates a `go build -overlay` from the current working tree (import rewrite sync->vsync, sync/atomic->vatomic, time->vtime; go/channel/select/close statements rewritten by engine/instr) and builds the worker with -tags verif',
   'baseline_off_cmd': BASE,
   'source_commits': [],
   'add_only': True,
 },
 'engines': [
   {'name': 'vrt', 'path': 'engine/vrt', 'kind_free_text': 'controlled runtime: cooperative scheduler over real goroutines, virtual clock, channel/select/mutex/atomic shims that perform the real operation underneath; race-detector-invisible baton (runtime.RaceDisable + //go:norace)', 'serves_properties': ALL},
   {'name': 'explore', 'path': 'engine/vrt/explore', 'kind_free_text': 'stateless DFS over choice prefixes with iterative deviation (preemption / early timer / select-case) bounding', 'serves_properties': ALL},
   {'name': 'instr', 'path': 'engine/instr', 'kind_free_text': 'source-to-source instrumenter producing a build overlay from the current /repo tree', 'serves_properties': ALL},
   {'name': 'check', 'path': 'engine/check', 'kind_free_text': 'driver: instrument, build worker, shard scenarios over cores, merge, known-findings matching, evidence, replay', 'serves_properties': ALL},
 ],
 'checks': [],
 'notes': 'All checks: bin/check <id> --tier quick|thorough; replay: bin/check <id> --replay <file>. Exit 0 held / 1 VIOLATION / 2 machinery error.',
 'not_applicable': [],
}
for pid in ALL:
    if pid in CHECKS:
        c = CHECKS[pid]
        m['checks'].append({
          'property_id': pid,
          'quick_cmd': 'bin/check %s --tier quick' % pid,
          'thorough_cmd': 'bin/check %s --tier thorough' % pid,
          'evidence_file': 'evidence/%s.json' % pid,
          'replay_cmd_template': 'bin/check %s --replay {path}' % pid,
          'engine': 'vrt+explore',
          'level_claimed': {'category': c['level'], 'text': c['text'], 'design_ref': c['ref']},
          'level_note': c['note'],
          'technique': c['technique'],
        })
    else:
        m['not_applicable'].append({'property_id': pid, 'reason': NA.get(pid, 'driver not built yet in this round (planned: DESIGN.md §5); not claimed until its check exists and passes')})
json.dump(m, open('MANIFEST.json', 'w'), indent=1)
print('checks:', len(m['checks']), 'not_applicable:', len(m['not_applicable']))
