// Package vrt is the controlled runtime under which the real samber/ro code is model checked.
//
// Threads are real goroutines, but exactly one of them runs at any time. Every synchronisation
// operation of the instrumented code (mutex, atomic, channel, select, timer, go statement) calls
// into this package first ("a point"): the thread publishes what it is about to do, the
// scheduler computes the set of enabled threads, asks the choice list for a decision and hands
// the baton to one thread. An execution is fully determined by its list of choices, so it can be
// replayed, and the explorer (package explore) enumerates all choice lists within a deviation
// bound.
//
// Every function of the scheduler proper is //go:norace and parks through channel operations
// bracketed by runtime.RaceDisable/RaceEnable, so that in a -race build the baton hand-offs add
// no happens-before edge: the race detector sees exactly the synchronisation the program under
// test performs itself (the shims in vsync/vatomic perform the real operation underneath).
package vrt

import (
	"fmt"
	"os"
	"runtime"
	"runtime/debug"
	"strings"
	"sync"
	"sync/atomic"
	"time"
	"unsafe"
)

// OpKind names the operation a thread is about to perform at a point.
type OpKind uint8

const (
	OpNone OpKind = iota
	OpStart
	OpYield
	OpSpin
	OpLock
	OpUnlock
	OpRLock
	OpWLock
	OpAtomic
	OpOnce
	OpSend
	OpRecv
	OpClose
	OpSelect
	OpSleep
	OpTimerStart
	OpMap
	OpWait
	OpUser
	OpSettle
)

var opNames = [...]string{"none", "start", "yield", "spin", "lock", "unlock", "rlock", "wlock", "atomic", "once", "send", "recv", "close", "select", "sleep", "timerstart", "map", "wait", "user", "settle"}

func (k OpKind) String() string { return opNames[k] }

const (
	MaxThreads = 64
	maxChoices = 1 << 13
	maxTimers  = 256
)

const (
	tsParked = iota
	tsRunning
	tsDone
)

// Mu is the model state of a mutex (owned by vsync.Mutex).
type Mu struct{ Held bool }

// RW is the model state of a RWMutex.
type RW struct {
	W bool
	R int
}

// OnceSt is the model state of a sync.Once.
type OnceSt struct{ Running bool }

// WG is the model state of a WaitGroup.
type WG struct{ N int }

type pending struct {
	wg    *WG
	kind  OpKind
	obj   uintptr
	mu    *Mu
	rw    *RW
	once  *OnceSt
	tm    *Timer
	ready func() bool
}

// Thread is one managed goroutine.
type Thread struct {
	id       int
	name     string
	wake     chan struct{}
	state    int
	pend     pending
	pendLoc  string
	spinMark uint64
	abort    bool
	dormant  bool // AfterFunc thread whose timer was stopped
	rvVal    interface{}
	rvDone   bool
	rvCase   int
	sel      *selState
}

// ChoiceKind says how alternatives at a choice point are costed.
type ChoiceKind uint8

const (
	// CkRunFirst: option 0 is the running thread, still enabled; every alternative is a preemption (cost 1).
	CkRunFirst ChoiceKind = iota
	// CkFree: the running thread is blocked or finished; choosing among other threads is free.
	CkFree
	// CkFreeClock: like CkFree but the last option is the CLOCK pseudo-thread, which costs 1.
	CkFreeClock
	// CkRunFirstClock: like CkRunFirst, the last option is CLOCK (all alternatives cost 1).
	CkRunFirstClock
	// CkData: a data choice (select case, environment answer); alternatives cost 1.
	CkData
	// CkDataFree: a data choice whose alternatives are free.
	CkDataFree
)

// Choice is one recorded decision.
type Choice struct {
	N      int
	Chosen int
	Kind   ChoiceKind
	// FreeCost is what an alternative costs when the running thread was blocked or finished:
	// 0 = preemption bounding (CHESS), 1 = delay bounding (every departure from the canonical
	// next thread is a deviation).
	FreeCost int
}

// Cost returns the deviation cost of taking alternative alt at this point.
func (c Choice) Cost(alt int) int {
	if alt == 0 {
		return 0
	}
	switch c.Kind {
	case CkRunFirst, CkRunFirstClock, CkData:
		return 1
	case CkDataFree:
		return 0
	case CkFree:
		return c.FreeCost
	case CkFreeClock:
		if alt == c.N-1 {
			return 1
		}
		return c.FreeCost
	}
	return 1
}

// Blocked describes a thread that had not finished when the execution ended.
type Blocked struct {
	Thread int
	Name   string
	Op     string
}

// Crash describes a panic that reached the top of a managed goroutine (in a real process: exit).
type Crash struct {
	Thread int
	Name   string
	Value  string
	Stack  string
}

// Result is what one execution produced, as far as the runtime is concerned.
type Result struct {
	Choices      []Choice
	Steps        int
	Switches     int
	Threads      int
	Blocked      []Blocked
	Crash        *Crash
	Fatal        string // e.g. unlock of unlocked mutex
	HorizonHit   bool
	DoubleClose  int   // close of an already closed channel (a panic in Go)
	SendOnClosed int   // send on a closed channel (a panic in Go)
	TimersLeft   int   // active timers at the end
	TickersLeft  int   // ... of which periodic (a ticker nobody stopped keeps firing for ever)
	Now          int64 // virtual nanoseconds since execution start
	Diverged     string
	StepTrace    []string
}

// Options configures one execution.
type Options struct {
	Horizon    int   // max number of points; 0 = default
	MaxTime    int64 // virtual ns after which CLOCK stops advancing; 0 = default (1s)
	SelectFree bool
	// DelayBounded makes every departure from the canonical schedule cost one deviation, also when the
	// running thread is blocked (delay bounding); default is preemption bounding.
	DelayBounded bool
	// StepTrace records, for every scheduling decision, which thread went on with which operation and
	// where in the instrumented code it stands (diagnosis of a replayed schedule; slow).
	StepTrace bool
}

// Exec is one execution.
type Exec struct {
	threads  [MaxThreads]*Thread
	nthreads int
	running  *Thread
	done     chan struct{}
	exited   chan int
	aborting bool
	finished bool

	prefix  []int
	choices []Choice

	steps     int
	horizon   int
	stepTrace bool
	progress  uint64
	seq       uint64
	switches  int

	now      int64
	maxTime  int64
	timers   [maxTimers]*Timer
	ntimers  int
	timerSeq int

	selectFree bool
	freeCost   int
	closed     [64]uintptr
	nclosed    int
	syncWord   int64
	res        Result
	opts       [MaxThreads + 1]*Thread
}

var cur *Exec

// Base is the virtual wall-clock instant at which every execution starts.
var Base = time.Date(2030, 1, 1, 1, 0, 0, 0, time.UTC)

// InitTime is what Now() returns outside any execution (package initialisation): one hour earlier.
var InitTime = Base.Add(-time.Hour)

// Active reports whether the caller runs inside a live (non-aborting) execution.
//
//go:norace
func Active() bool {
	x := cur
	return x != nil && !x.aborting
}

// Aborting reports whether the current execution is being torn down (shims must be no-ops).
//
//go:norace
func Aborting() bool {
	x := cur
	return x != nil && x.aborting
}

// Self returns the id of the running thread (-1 outside an execution).
//
//go:norace
func Self() int {
	x := cur
	if x == nil || x.running == nil {
		return -1
	}
	return x.running.id
}

// Tick returns a fresh logical timestamp (total order over everything that happens in an execution).
//
//go:norace
func Tick() uint64 {
	x := cur
	if x == nil {
		return 0
	}
	x.seq++
	return x.seq
}

// NowNS returns virtual nanoseconds since the start of the execution.
//
//go:norace
func NowNS() int64 {
	x := cur
	if x == nil {
		return 0
	}
	return x.now
}

// Now returns the virtual wall clock.
//
//go:norace
func Now() time.Time {
	x := cur
	if x == nil {
		return InitTime
	}
	return Base.Add(time.Duration(x.now))
}

//go:norace
func (t *Thread) park() {
	raceReleaseMerge(unsafe.Pointer(&cur.syncWord))
	syncOff()
	<-t.wake
	syncOn()
}

//go:norace
func (t *Thread) wakeUp() {
	syncOff()
	t.wake <- struct{}{}
	syncOn()
}

//go:norace
func (x *Exec) enabled(t *Thread) bool {
	p := &t.pend
	switch p.kind {
	case OpLock:
		return !p.mu.Held
	case OpWLock:
		return !p.rw.W && p.rw.R == 0
	case OpRLock:
		return !p.rw.W
	case OpOnce:
		return !p.once.Running
	case OpSpin:
		return x.progress != t.spinMark
	case OpSleep, OpTimerStart:
		return p.tm.fired
	case OpWait:
		if p.wg != nil {
			return p.wg.N <= 0
		}
	case OpSettle:
		return false
	}
	if p.ready != nil {
		syncOff()
		r := p.ready()
		syncOn()
		return r
	}
	return true
}

//go:norace
func (x *Exec) choose(n int, kind ChoiceKind) int {
	i := len(x.choices)
	c := 0
	if i < len(x.prefix) {
		c = x.prefix[i]
		if c < 0 || c >= n {
			if x.res.Diverged == "" {
				x.res.Diverged = fmt.Sprintf("choice %d: prefix wants %d of %d options", i, c, n)
			}
			c = 0
		}
	}
	if i >= maxChoices {
		x.res.HorizonHit = true
		return c
	}
	x.choices = append(x.choices, Choice{N: n, Chosen: c, Kind: kind, FreeCost: x.freeCost})
	return c
}

// schedule decides which thread runs next. curT is the thread making the decision; curAlive says
// whether it is itself a candidate (it is at a point with a pending operation). nil = nothing can run.
//
//go:norace
func (x *Exec) schedule(curT *Thread, curAlive bool) *Thread {
	for {
		n := 0
		runFirst := false
		if curAlive && x.enabled(curT) {
			x.opts[n] = curT
			n++
			runFirst = true
		}
		for i := 0; i < x.nthreads; i++ {
			t := x.threads[i]
			if t == curT || t.state != tsParked {
				continue
			}
			if x.enabled(t) {
				x.opts[n] = t
				n++
			}
		}
		if n == 0 {
			// nobody can run: a thread waiting for quiescence (Settle) goes first, before time advances
			if curAlive && curT.pend.kind == OpSettle {
				return curT
			}
			for i := 0; i < x.nthreads; i++ {
				t := x.threads[i]
				if t != curT && t.state == tsParked && t.pend.kind == OpSettle {
					return t
				}
			}
		}
		clock := x.nextTimer() != nil
		total := n
		if clock {
			total++
		}
		if total == 0 {
			return nil
		}
		c := 0
		if total > 1 {
			kind := CkFree
			switch {
			case runFirst && clock:
				kind = CkRunFirstClock
			case runFirst:
				kind = CkRunFirst
			case clock:
				kind = CkFreeClock
			}
			c = x.choose(total, kind)
		}
		if c < n {
			return x.opts[c]
		}
		x.fireNextTimer()
	}
}

//go:norace
func (x *Exec) finish() {
	if x.finished {
		return
	}
	x.finished = true
	x.done <- struct{}{}
}

// point is the heart: the running thread announces its next operation and lets the scheduler decide.
//
//go:norace
func (x *Exec) point(p pending) {
	t := x.running
	if t == nil {
		return
	}
	x.steps++
	if x.steps > x.horizon {
		x.res.HorizonHit = true
		t.pend = pending{kind: OpNone}
		x.finish()
		t.state = tsParked
		t.park()
		if t.abort {
			runtime.Goexit()
		}
		return
	}
	t.pend = p
	if x.stepTrace {
		t.pendLoc = callSite()
	}
	next := x.schedule(t, true)
	if x.stepTrace && next != nil {
		x.res.StepTrace = append(x.res.StepTrace, fmt.Sprintf("t=%-9d %-14s %-12s %s", x.now, next.name, next.pend.kind.String(), next.pendLoc))
	}
	if next == t {
		if p.kind != OpSpin && p.kind != OpYield {
			x.progress++
		}
		t.pend.ready = nil
		return
	}
	t.state = tsParked
	if next == nil {
		x.finish()
	} else {
		x.switches++
		next.state = tsRunning
		x.running = next
		next.wakeUp()
	}
	t.park()
	if t.abort {
		runtime.Goexit()
	}
	if p.kind != OpSpin && p.kind != OpYield {
		x.progress++
	}
	t.pend.ready = nil
}

// callSite names the innermost frames of the caller that are not part of the scheduler or its shims.
func callSite() string {
	pcs := make([]uintptr, 24)
	n := runtime.Callers(3, pcs)
	fr := runtime.CallersFrames(pcs[:n])
	var out []string
	for {
		f, more := fr.Next()
		if !strings.Contains(f.File, "/engine/vrt/") && f.Function != "" {
			fn := f.Function
			if i := strings.LastIndex(fn, "/"); i >= 0 {
				fn = fn[i+1:]
			}
			out = append(out, fmt.Sprintf("%s:%d", fn, f.Line))
			if len(out) == 3 {
				break
			}
		}
		if !more {
			break
		}
	}
	return strings.Join(out, " < ")
}

// Point is a scheduling point with an optional readiness predicate.
//
//go:norace
func Point(kind OpKind, obj uintptr, ready func() bool) {
	x := cur
	if x == nil || x.aborting {
		return
	}
	x.point(pending{kind: kind, obj: obj, ready: ready})
}

// Yield is a pure scheduling point (always enabled). Harness callbacks use it so that another
// producer can enter concurrently if the library lets it.
//
//go:norace
func Yield() {
	x := cur
	if x == nil || x.aborting {
		return
	}
	x.point(pending{kind: OpYield})
}

// Settle parks the calling thread until no other thread can run (everything the previous action
// caused has happened); virtual time does not advance meanwhile. Harness drivers use it to issue the
// next notification only after the previous one was processed to quiescence.
//
//go:norace
func Settle() {
	x := cur
	if x == nil || x.aborting {
		return
	}
	x.point(pending{kind: OpSettle})
	// quiescence is a barrier: whatever the other threads did before they blocked happened before what
	// the caller does next (a real driver would have synchronised with them to know they are done)
	raceAcquire(unsafe.Pointer(&x.syncWord))
}

// SetFinalizer replaces runtime.SetFinalizer in instrumented code: a finalizer would run on the garbage
// collector's goroutine, outside the scheduler and at an uncontrolled moment, so it is dropped.
func SetFinalizer(obj interface{}, finalizer interface{}) {}

// Spin replaces runtime.Gosched() inside spin loops: the thread is disabled until some other thread
// has made progress, so a spin loop is a blocking wait and all-threads-spinning is a deadlock.
//
//go:norace
func Spin() {
	x := cur
	if x == nil || x.aborting {
		return
	}
	t := x.running
	if t == nil {
		return
	}
	t.spinMark = x.progress
	x.point(pending{kind: OpSpin})
}

// LockPoint blocks (in the model) until m is free, then marks it held.
//
//go:norace
func (m *Mu) LockPoint() {
	x := cur
	if x == nil || x.aborting {
		return
	}
	x.point(pending{kind: OpLock, mu: m, obj: uintptr(unsafe.Pointer(m))})
	m.Held = true
}

// TryLockPoint is a point followed by a model try-lock.
//
//go:norace
func (m *Mu) TryLockPoint() bool {
	x := cur
	if x == nil || x.aborting {
		return true
	}
	x.point(pending{kind: OpAtomic, obj: uintptr(unsafe.Pointer(m))})
	if m.Held {
		return false
	}
	m.Held = true
	return true
}

// UnlockModel releases the model lock; false means the mutex was not held (a runtime fatal in Go).
//
//go:norace
func (m *Mu) UnlockModel() bool {
	x := cur
	if x == nil || x.aborting {
		return true
	}
	if !m.Held {
		x.fatal("sync: unlock of unlocked mutex")
		return false
	}
	m.Held = false
	return true
}

// AfterUnlock is the point after an unlock (so that "unlock, then touch shared state" windows open).
//
//go:norace
func AfterUnlock(obj uintptr) {
	x := cur
	if x == nil || x.aborting {
		return
	}
	x.point(pending{kind: OpUnlock, obj: obj})
}

//go:norace
func (r *RW) LockPoint() {
	x := cur
	if x == nil || x.aborting {
		return
	}
	x.point(pending{kind: OpWLock, rw: r, obj: uintptr(unsafe.Pointer(r))})
	r.W = true
}

//go:norace
func (r *RW) RLockPoint() {
	x := cur
	if x == nil || x.aborting {
		return
	}
	x.point(pending{kind: OpRLock, rw: r, obj: uintptr(unsafe.Pointer(r))})
	r.R++
}

//go:norace
func (r *RW) TryLockPoint() bool {
	x := cur
	if x == nil || x.aborting {
		return true
	}
	x.point(pending{kind: OpAtomic, obj: uintptr(unsafe.Pointer(r))})
	if r.W || r.R > 0 {
		return false
	}
	r.W = true
	return true
}

//go:norace
func (r *RW) TryRLockPoint() bool {
	x := cur
	if x == nil || x.aborting {
		return true
	}
	x.point(pending{kind: OpAtomic, obj: uintptr(unsafe.Pointer(r))})
	if r.W {
		return false
	}
	r.R++
	return true
}

//go:norace
func (r *RW) UnlockModel() bool {
	x := cur
	if x == nil || x.aborting {
		return true
	}
	if !r.W {
		x.fatal("sync: Unlock of unlocked RWMutex")
		return false
	}
	r.W = false
	return true
}

//go:norace
func (r *RW) RUnlockModel() bool {
	x := cur
	if x == nil || x.aborting {
		return true
	}
	if r.R <= 0 {
		x.fatal("sync: RUnlock of unlocked RWMutex")
		return false
	}
	r.R--
	return true
}

// OncePoint blocks while another thread is inside Do.
//
//go:norace
func (o *OnceSt) OncePoint() {
	x := cur
	if x == nil || x.aborting {
		return
	}
	x.point(pending{kind: OpOnce, once: o, obj: uintptr(unsafe.Pointer(o))})
}

// SetRunning marks the Once as executing its function (other callers of Do block meanwhile).
//
//go:norace
func (o *OnceSt) SetRunning(b bool) { o.Running = b }

// AddModel is the point and the model update of WaitGroup.Add.
//
//go:norace
func (w *WG) AddModel(d int) {
	x := cur
	if x == nil || x.aborting {
		return
	}
	x.point(pending{kind: OpAtomic, obj: uintptr(unsafe.Pointer(w))})
	w.N += d
}

// WaitPoint blocks (in the model) until the counter is zero.
//
//go:norace
func (w *WG) WaitPoint() {
	x := cur
	if x == nil || x.aborting {
		return
	}
	x.point(pending{kind: OpWait, wg: w, obj: uintptr(unsafe.Pointer(w))})
}

// AtomicPoint precedes every atomic access.
//
//go:norace
func AtomicPoint(obj uintptr) {
	x := cur
	if x == nil || x.aborting {
		return
	}
	if x.nthreads == 1 && x.ntimers == 0 {
		x.steps++
		x.progress++
		if x.steps <= x.horizon {
			return
		}
	}
	x.point(pending{kind: OpAtomic, obj: obj})
}

// NoProgress takes back the progress the scheduling point just passed was credited with: the operation
// turned out not to change shared memory (an atomic load, a failed compare-and-swap). Spinning threads are
// re-enabled only by progress, so threads that spin on each other's reads cannot keep one another alive.
//
//go:norace
func NoProgress() {
	x := cur
	if x == nil || x.aborting {
		return
	}
	x.progress--
}

// Choose is a data choice with n options (alternatives cost one deviation unless free).
//
//go:norace
func Choose(n int, free bool) int {
	x := cur
	if x == nil || x.aborting || n <= 1 {
		return 0
	}
	k := CkData
	if free {
		k = CkDataFree
	}
	return x.choose(n, k)
}

//go:norace
func (x *Exec) fatal(msg string) {
	if x.res.Fatal == "" {
		x.res.Fatal = msg + "\n" + string(debug.Stack())
	}
	t := x.running
	x.finish()
	if t != nil {
		t.state = tsParked
		t.pend = pending{kind: OpNone}
		t.park()
		if t.abort {
			runtime.Goexit()
		}
	}
}

//go:norace
func (x *Exec) newThread(name string, body func(), p pending) *Thread {
	if x.nthreads >= MaxThreads {
		x.fatal("vrt: too many threads")
		return nil
	}
	t := &Thread{id: x.nthreads, name: name, wake: make(chan struct{}, 1), state: tsParked, pend: p}
	x.threads[x.nthreads] = t
	x.nthreads++
	go x.threadMain(t, body)
	return t
}

//go:norace
func (x *Exec) threadMain(t *Thread, body func()) {
	defer x.threadExit(t)
	t.park()
	if t.abort {
		return
	}
	t.pend = pending{}
	body()
}

//go:norace
func (x *Exec) threadExit(t *Thread) {
	r := recover()
	raceReleaseMerge(unsafe.Pointer(&x.syncWord))
	t.state = tsDone
	if x.aborting || t.abort {
		syncOff()
		x.exited <- t.id
		syncOn()
		return
	}
	if r != nil {
		if x.res.Crash == nil {
			x.res.Crash = &Crash{Thread: t.id, Name: t.name, Value: fmt.Sprint(r), Stack: trimStack(string(debug.Stack()))}
		}
		x.finish()
		return
	}
	x.progress++
	next := x.schedule(t, false)
	if next == nil {
		x.finish()
		return
	}
	x.switches++
	next.state = tsRunning
	x.running = next
	next.wakeUp()
}

func trimStack(s string) string {
	lines := strings.Split(s, "\n")
	if len(lines) > 60 {
		lines = lines[:60]
	}
	return strings.Join(lines, "\n")
}

// Go starts a managed thread (the rewritten form of a go statement).
//
//go:norace
func Go(fn func()) {
	GoNamed("go", fn)
}

// GoNamed starts a managed thread with a name that shows up in leak reports.
//
//go:norace
func GoNamed(name string, fn func()) {
	x := cur
	if x == nil {
		go fn()
		return
	}
	if x.aborting {
		return
	}
	if name == "go" {
		// named after the function containing the go statement (stable when unrelated lines move)
		if pc, _, _, ok := runtime.Caller(2); ok {
			if f := runtime.FuncForPC(pc); f != nil {
				fn := f.Name()
				if i := strings.LastIndexByte(fn, '/'); i >= 0 {
					fn = fn[i+1:]
				}
				if i := strings.Index(fn, "[...]"); i >= 0 {
					fn = fn[:i] + fn[i+5:]
				}
				// generic code is instantiated inside its caller ("checks.f.func1.SubscribeOn.1.2"):
				// keep the innermost named function and the closure path below it
				parts := strings.Split(fn, ".")
				start := 0
				for i, p := range parts {
					if p == "" || strings.HasPrefix(p, "func") || (p[0] >= '0' && p[0] <= '9') {
						continue
					}
					start = i
				}
				name = "go@" + strings.Join(parts[start:], ".")
			}
		}
	}
	x.newThread(name, fn, pending{kind: OpStart})
}

// RaceReleaseMerge / RaceAcquire let a harness component that stands for a synchronised real-world
// object (a hot source keeps its subscriber list under a lock) contribute the happens-before edge that
// object would give. No-ops outside -race builds.
//
//go:norace
func RaceReleaseMerge(p unsafe.Pointer) { raceReleaseMerge(p) }

//go:norace
func RaceAcquire(p unsafe.Pointer) { raceAcquire(p) }

// AbortHook, if set, is called with 0 right before the leftover threads of an execution are torn down
// and with 1 right after: race-detector output produced in between belongs to the teardown (deferred
// functions run with no-op shims), not to the execution.
var AbortHook func(phase int)

// WatchdogSeconds bounds the wall time of one execution; exceeding it is a machinery error.
var WatchdogSeconds = 60

// Run executes body as thread 0 under the scheduler, replaying prefix and then taking choice 0.
func Run(o Options, prefix []int, body func()) *Result {
	if cur != nil {
		panic("vrt: nested Run")
	}
	x := &Exec{
		done:       make(chan struct{}, 1),
		exited:     make(chan int, MaxThreads),
		prefix:     prefix,
		choices:    make([]Choice, 0, 64),
		horizon:    o.Horizon,
		stepTrace:  o.StepTrace,
		maxTime:    o.MaxTime,
		selectFree: o.SelectFree,
	}
	if o.DelayBounded {
		x.freeCost = 1
	}
	if x.horizon == 0 {
		x.horizon = 200000
	}
	if x.maxTime == 0 {
		x.maxTime = int64(time.Second)
	}
	cur = x
	t0 := x.newThread("main", body, pending{kind: OpStart})
	t0.state = tsRunning
	x.running = t0
	t0.wakeUp()
	atomic.AddUint64(&execCounter, 1)
	startWatchdog()
	<-x.done
	raceAcquire(unsafe.Pointer(&x.syncWord))
	if AbortHook != nil {
		AbortHook(0)
	}
	x.aborting = true
	for i := 0; i < x.nthreads; i++ {
		t := x.threads[i]
		// a thread that only stands for an armed AfterFunc timer is a timer (see TimersLeft), not a goroutine
		if t.state != tsDone && !t.dormant && t.pend.kind != OpTimerStart {
			x.res.Blocked = append(x.res.Blocked, Blocked{Thread: t.id, Name: t.name, Op: t.pend.kind.String()})
		}
	}
	for i := 0; i < x.nthreads; i++ {
		t := x.threads[i]
		if t.state != tsDone {
			x.running = t
			t.abort = true
			t.wakeUp()
			syncOff()
			<-x.exited
			syncOn()
		}
	}
	if AbortHook != nil {
		AbortHook(1)
	}
	x.running = nil
	for i := 0; i < x.ntimers; i++ {
		if x.timers[i].active && !x.timers[i].harness {
			x.res.TimersLeft++
			if x.timers[i].period > 0 {
				x.res.TickersLeft++
			}
		}
	}
	x.res.Choices = x.choices
	x.res.Steps = x.steps
	x.res.Switches = x.switches
	x.res.Threads = x.nthreads
	x.res.Now = x.now
	cur = nil
	atomic.AddUint64(&execCounter, 1)
	return &x.res
}

var (
	execCounter  uint64
	watchdogOnce sync.Once
)

// startWatchdog starts (once per process) a monitor that turns a stuck execution - the model said
// "enabled" but the real operation blocked, or a thread left the scheduler's control - into a loud
// machinery error (exit 2) instead of a hang.
func startWatchdog() {
	watchdogOnce.Do(func() {
		go func() {
			last := uint64(0)
			stuck := 0
			for {
				time.Sleep(time.Second)
				c := atomic.LoadUint64(&execCounter)
				if c == last && c%2 == 1 {
					stuck++
				} else {
					stuck = 0
				}
				last = c
				if stuck >= WatchdogSeconds {
					fmt.Fprintf(os.Stderr, "vrt: watchdog: one execution has been running for %ds\n", stuck)
					buf := make([]byte, 1<<20)
					n := runtime.Stack(buf, true)
					os.Stderr.Write(buf[:n])
					os.Exit(2)
				}
			}
		}()
	})
}
