package vrt_test

import (
	"testing"
	"time"

	"verif.local/vrt"
	"verif.local/vrt/explore"
	"verif.local/vrt/vatomic"
	"verif.local/vrt/vsync"
	"verif.local/vrt/vtime"
)

// lost update: two threads do load;store on a shared counter. Unlocked must fail at bound 1 (not at 0).
func lostUpdate(locked bool) func(bound int) (bad int, st explore.Stats) {
	return func(bound int) (int, explore.Stats) {
		bad := 0
		var final int32
		run := func(prefix []int) *vrt.Result {
			var mu vsync.Mutex
			var c int32
			return vrt.Run(vrt.Options{}, prefix, func() {
				var wg vsync.WaitGroup
				wg.Add(2)
				for i := 0; i < 2; i++ {
					vrt.Go(func() {
						defer wg.Done()
						if locked {
							mu.Lock()
						}
						v := vatomic.LoadInt32(&c)
						vatomic.StoreInt32(&c, v+1)
						if locked {
							mu.Unlock()
						}
					})
				}
				wg.Wait()
				final = vatomic.LoadInt32(&c)
			})
		}
		st := explore.DFS(run, bound, explore.Limits{}, func(p []int, r *vrt.Result) bool {
			if len(r.Blocked) > 0 || r.Crash != nil || r.Fatal != "" {
				panic("unexpected")
			}
			if final != 2 {
				bad++
			}
			return true
		})
		return bad, st
	}
}

func TestLostUpdate(t *testing.T) {
	b0, s0 := lostUpdate(false)(0)
	b1, s1 := lostUpdate(false)(1)
	l2, s2 := lostUpdate(true)(2)
	t.Logf("unlocked b0: bad=%d %+v", b0, s0)
	t.Logf("unlocked b1: bad=%d %+v", b1, s1)
	t.Logf("locked b2: bad=%d %+v", l2, s2)
	if b0 != 0 || b1 == 0 || l2 != 0 {
		t.Fatalf("bad0=%d bad1=%d locked=%d", b0, b1, l2)
	}
}

func TestDeadlock(t *testing.T) {
	found := 0
	run := func(prefix []int) *vrt.Result {
		var a, b vsync.Mutex
		return vrt.Run(vrt.Options{}, prefix, func() {
			vrt.Go(func() { a.Lock(); b.Lock(); b.Unlock(); a.Unlock() })
			vrt.Go(func() { b.Lock(); a.Lock(); a.Unlock(); b.Unlock() })
		})
	}
	st := explore.DFS(run, 1, explore.Limits{}, func(p []int, r *vrt.Result) bool {
		if len(r.Blocked) > 0 {
			found++
		}
		return true
	})
	t.Logf("deadlocks=%d %+v", found, st)
	if found == 0 {
		t.Fatal("AB/BA deadlock not found")
	}
}

func TestTimeAndChannels(t *testing.T) {
	outcomes := map[string]int{}
	run := func(prefix []int) *vrt.Result {
		var log string
		r := vrt.Run(vrt.Options{}, prefix, func() {
			ch := make(chan int)
			done := make(chan struct{})
			vrt.Go(func() {
				for i := 0; i < 2; i++ {
					vtime.Sleep(10 * time.Millisecond)
					vrt.Send(ch, i)
				}
				vrt.Close(ch)
			})
			vrt.Go(func() {
				tk := vtime.NewTicker(15 * time.Millisecond)
				defer tk.Stop()
				for {
					switch vrt.Select(false, vrt.R(tk.C), vrt.R(done)) {
					case 0:
						vrt.RecvNow(tk.C)
						log += "t"
					case 1:
						vrt.RecvNow(done)
						return
					}
				}
			})
			for {
				v, ok := vrt.Recv2(ch)
				if !ok {
					break
				}
				log += string(rune('0' + v))
			}
			vrt.Close(done)
		})
		if len(r.Blocked) > 0 || r.Crash != nil || r.Fatal != "" || r.TimersLeft != 0 {
			t.Fatalf("unexpected %+v", r)
		}
		outcomes[log]++
		return r
	}
	st := explore.DFS(run, 2, explore.Limits{}, func(p []int, r *vrt.Result) bool { return true })
	t.Logf("%+v outcomes=%v", st, outcomes)
	if outcomes["0t1"] == 0 {
		t.Fatal("default outcome missing")
	}
	// replay determinism
	r1 := run([]int{})
	r2 := run(explore.ChoiceList(r1))
	if len(r1.Choices) != len(r2.Choices) {
		t.Fatal("replay differs")
	}
}

func TestCrashAndSpin(t *testing.T) {
	r := vrt.Run(vrt.Options{}, nil, func() {
		vrt.Go(func() { panic("boom") })
	})
	if r.Crash == nil {
		t.Fatal("crash not recorded")
	}
	var flag int32
	r = vrt.Run(vrt.Options{}, nil, func() {
		vrt.Go(func() {
			for !vatomic.CompareAndSwapInt32(&flag, 1, 2) {
				vrt.Spin()
			}
		})
		vrt.Yield()
		vatomic.StoreInt32(&flag, 1)
	})
	if len(r.Blocked) != 0 || flag != 2 {
		t.Fatalf("spin: %+v flag=%d", r, flag)
	}
	r = vrt.Run(vrt.Options{}, nil, func() {
		for !vatomic.CompareAndSwapInt32(&flag, 7, 8) {
			vrt.Spin()
		}
	})
	if len(r.Blocked) != 1 {
		t.Fatalf("livelock not detected: %+v", r)
	}
}

// buffered channels are FIFO whatever the schedule; unbuffered hand-over works both ways
func TestChannelFIFO(t *testing.T) {
	for _, capacity := range []int{0, 1, 2} {
		capacity := capacity
		var got []int
		run := func(prefix []int) *vrt.Result {
			got = nil
			return vrt.Run(vrt.Options{}, prefix, func() {
				ch := make(chan int, capacity)
				vrt.Go(func() {
					for i := 1; i <= 3; i++ {
						vrt.Send(ch, i)
					}
					vrt.Close(ch)
				})
				for {
					v, ok := vrt.Recv2(ch)
					if !ok {
						return
					}
					got = append(got, v)
				}
			})
		}
		st := explore.DFS(run, 3, explore.Limits{}, func(p []int, r *vrt.Result) bool {
			if len(got) != 3 || got[0] != 1 || got[1] != 2 || got[2] != 3 || len(r.Blocked) > 0 {
				t.Fatalf("cap %d: got %v blocked %v (choices %v)", capacity, got, r.Blocked, p)
			}
			return true
		})
		t.Logf("cap %d: %d executions", capacity, st.Executions)
	}
}

// An AfterFunc timer that is Reset after it fired runs its function again (as time.AfterFunc does).
func TestAfterFuncResetAfterFire(t *testing.T) {
	n := 0
	r := vrt.Run(vrt.Options{MaxTime: 100}, nil, func() {
		var tm *vrt.Timer
		tm = vrt.AfterFunc(10, func() { n++ })
		vrt.HSleep(15)
		tm.Reset(10)
		vrt.HSleep(20)
	})
	if r.Fatal != "" || n != 2 || len(r.Blocked) != 0 {
		t.Fatalf("fatal=%q n=%d blocked=%v", r.Fatal, n, r.Blocked)
	}
}
