module verif.local/vrt

go 1.18
