package vrt

import (
	"fmt"
	"unsafe"
)

// Timer is a virtual timer. Kind 0: fires by calling Fire (channel timers and tickers: Fire performs
// the non-blocking send); kind 1: wakes a sleeping thread; kind 2: releases an AfterFunc thread.
type Timer struct {
	when    int64
	seq     int
	period  int64
	active  bool
	fired   bool
	kind    int
	Fire    func(nowNS int64)
	th      *Thread
	fn      func() // kind 2: the function, kept for a Reset after it has fired
	harness bool   // armed by the test harness, not by the code under test
}

//go:norace
func (x *Exec) addTimer(tm *Timer, d int64) {
	if d < 0 {
		d = 0
	}
	tm.when = x.now + d
	if tm.when < x.now { // overflow: never
		tm.when = 1<<63 - 1
	}
	x.timerSeq++
	tm.seq = x.timerSeq
	tm.active = true
	tm.fired = false
	for i := 0; i < x.ntimers; i++ {
		if x.timers[i] == tm {
			return
		}
	}
	// reuse a dead slot
	for i := 0; i < x.ntimers; i++ {
		if !x.timers[i].active {
			x.timers[i] = tm
			return
		}
	}
	if x.ntimers >= maxTimers {
		x.fatal("vrt: too many timers")
		return
	}
	x.timers[x.ntimers] = tm
	x.ntimers++
}

// nextTimer returns the earliest active timer that is within the time horizon.
//
//go:norace
func (x *Exec) nextTimer() *Timer {
	var best *Timer
	for i := 0; i < x.ntimers; i++ {
		tm := x.timers[i]
		if !tm.active {
			continue
		}
		if best == nil || tm.when < best.when || (tm.when == best.when && tm.seq < best.seq) {
			best = tm
		}
	}
	if best != nil && best.when > x.maxTime {
		return nil
	}
	return best
}

//go:norace
func (x *Exec) fireNextTimer() {
	tm := x.nextTimer()
	if tm == nil {
		return
	}
	if tm.when > x.now {
		x.now = tm.when
	}
	x.progress++
	x.steps++
	if tm.period > 0 {
		tm.when += tm.period
		if tm.when < x.now {
			tm.when = 1<<63 - 1
		}
		x.timerSeq++
		tm.seq = x.timerSeq
	} else {
		tm.active = false
	}
	tm.fired = true
	if x.stepTrace {
		x.res.StepTrace = append(x.res.StepTrace, fmt.Sprintf("t=%-9d CLOCK fires a timer of kind %d (0 channel, 1 sleep, 2 AfterFunc)", x.now, tm.kind))
	}
	if tm.Fire != nil {
		syncOff()
		tm.Fire(x.now)
		syncOn()
	}
}

// NewChanTimer arms a timer that calls fire(now) when it expires (period > 0: repeatedly).
//
//go:norace
func NewChanTimer(d, period int64, fire func(nowNS int64)) *Timer {
	x := cur
	tm := &Timer{kind: 0, Fire: fire, period: period}
	if x == nil || x.aborting {
		return tm
	}
	x.addTimer(tm, d)
	return tm
}

// Stop deactivates the timer; it reports whether the timer was active.
//
//go:norace
func (tm *Timer) Stop() bool {
	x := cur
	if x == nil || x.aborting {
		return false
	}
	x.point(pending{kind: OpAtomic, obj: uintptr(unsafe.Pointer(tm))})
	was := tm.active
	tm.active = false
	if tm.kind == 2 && tm.th != nil && !tm.fired {
		tm.th.dormant = true
	}
	return was
}

// Reset re-arms the timer; it reports whether the timer had been active.
//
//go:norace
func (tm *Timer) Reset(d int64) bool {
	x := cur
	if x == nil || x.aborting {
		return false
	}
	x.point(pending{kind: OpAtomic, obj: uintptr(unsafe.Pointer(tm))})
	was := tm.active
	if tm.kind == 2 {
		if tm.fired {
			// the function has been released already (running, finished, or about to start): like Go,
			// arm a further invocation on a goroutine of its own and leave the earlier one alone
			if old := tm.th; old != nil && old.pend.kind == OpTimerStart && old.pend.tm == tm {
				old.pend.tm = &Timer{kind: 2, fired: true}
			}
			tm.th = x.newThread("afterfunc", tm.fn, pending{kind: OpTimerStart, tm: tm})
		} else if tm.th != nil {
			tm.th.dormant = false
		}
	}
	x.addTimer(tm, d)
	return was
}

// ResetPeriod re-arms a ticker with a new period.
//
//go:norace
func (tm *Timer) ResetPeriod(d int64) {
	x := cur
	if x == nil || x.aborting {
		return
	}
	x.point(pending{kind: OpAtomic, obj: uintptr(unsafe.Pointer(tm))})
	tm.period = d
	x.addTimer(tm, d)
}

// Active reports whether the timer is armed.
//
//go:norace
func (tm *Timer) Active() bool { return tm.active }

// Sleep blocks the running thread for d virtual nanoseconds (time.Sleep of the code under test).
//
//go:norace
func Sleep(d int64) { sleep(d, false) }

// HSleep is Sleep for the test harness: its timer is not counted among the library's armed timers.
//
//go:norace
func HSleep(d int64) { sleep(d, true) }

//go:norace
func sleep(d int64, harness bool) {
	x := cur
	if x == nil || x.aborting {
		return
	}
	if d <= 0 {
		x.point(pending{kind: OpYield})
		return
	}
	tm := &Timer{kind: 1, harness: harness}
	x.addTimer(tm, d)
	x.point(pending{kind: OpSleep, tm: tm})
}

// AfterFunc starts a thread that is released when the timer fires. The goroutine is created now, by
// the caller, so that in a -race build the only happens-before edge into f comes from the AfterFunc call.
//
//go:norace
func AfterFunc(d int64, f func()) *Timer {
	x := cur
	tm := &Timer{kind: 2, fn: f}
	if x == nil || x.aborting {
		return tm
	}
	tm.th = x.newThread("afterfunc", f, pending{kind: OpTimerStart, tm: tm})
	x.addTimer(tm, d)
	return tm
}

// SetMaxTime moves the time horizon of the current execution (virtual ns since its start).
//
//go:norace
func SetMaxTime(ns int64) {
	if x := cur; x != nil {
		x.maxTime = ns
	}
}
