package vrt

import "unsafe"

// Channel operations of the instrumented code. The real channel always carries buffered data, so in a
// -race build the program's own channel synchronisation is seen as written. An unbuffered hand-over
// between two managed threads is done through the model (the partner is parked, not blocked in the
// runtime) with explicit race-detector release/acquire edges in both directions.

type caseInfo struct {
	dir   int // 0 = receive, 1 = send
	obj   uintptr
	ready func() bool
}

// Case is one communication clause of a rewritten select statement.
type Case struct{ c caseInfo }

type selState struct {
	cases [8]caseInfo
	n     int
	def   bool
}

//go:norace
func idR[T any](ch <-chan T) unsafe.Pointer { return *(*unsafe.Pointer)(unsafe.Pointer(&ch)) }

//go:norace
func idS[T any](ch chan<- T) unsafe.Pointer { return *(*unsafe.Pointer)(unsafe.Pointer(&ch)) }

func ra(p unsafe.Pointer) { raceAcquire(p) }
func rr(p unsafe.Pointer) { raceRelease(p) }
func ra8(p unsafe.Pointer) {
	if p != nil {
		raceAcquire(unsafe.Add(p, 8))
	}
}
func rr8(p unsafe.Pointer) {
	if p != nil {
		raceRelease(unsafe.Add(p, 8))
	}
}

// parkedPartner finds a parked thread that waits to send (dir=1) or receive (dir=0) on obj and has
// not been served yet. For a select it also returns the case index.
//
//go:norace
func parkedPartner(obj uintptr, dir int) (*Thread, int) {
	x := cur
	if x == nil {
		return nil, 0
	}
	for i := 0; i < x.nthreads; i++ {
		t := x.threads[i]
		if t.state != tsParked || t == x.running || t.rvDone {
			continue
		}
		switch t.pend.kind {
		case OpSend:
			if dir == 1 && t.pend.obj == obj {
				return t, 0
			}
		case OpRecv:
			if dir == 0 && t.pend.obj == obj {
				return t, 0
			}
		case OpSelect:
			if t.sel != nil {
				for j := 0; j < t.sel.n; j++ {
					if t.sel.cases[j].dir == dir && t.sel.cases[j].obj == obj {
						return t, j
					}
				}
			}
		}
	}
	return nil, 0
}

//go:norace
func hasParked(obj uintptr, dir int) bool {
	t, _ := parkedPartner(obj, dir)
	return t != nil
}

//go:norace
func isClosedKnown(obj uintptr) bool {
	x := cur
	if x == nil {
		return false
	}
	for i := 0; i < x.nclosed; i++ {
		if x.closed[i] == obj {
			return true
		}
	}
	return false
}

//go:norace
func markClosed(obj uintptr) {
	x := cur
	if x == nil {
		return
	}
	if x.nclosed < len(x.closed) {
		x.closed[x.nclosed] = obj
		x.nclosed++
	}
}

// serve completes the pending operation of parked partner t through the model.
//
//go:norace
func serve(t *Thread, caseIdx int, v interface{}) (taken interface{}) {
	taken = t.rvVal
	t.rvVal = v
	t.rvDone = true
	t.rvCase = caseIdx
	t.pend = pending{kind: OpNone}
	return taken
}

//go:norace
func selfThread() *Thread {
	x := cur
	if x == nil {
		return nil
	}
	return x.running
}

//go:norace
func setOffer(v interface{}) {
	if t := selfThread(); t != nil {
		t.rvVal = v
		t.rvDone = false
	}
}

//go:norace
func takeInbox() (interface{}, int, bool) {
	t := selfThread()
	if t == nil || !t.rvDone {
		return nil, 0, false
	}
	v, c := t.rvVal, t.rvCase
	t.rvDone = false
	t.rvVal = nil
	return v, c, true
}

func probeClosed[T any](ch <-chan T) bool {
	select {
	case _, ok := <-ch:
		if ok {
			panic("vrt: readiness probe consumed a value (a goroutine outside the scheduler sends on this channel)")
		}
		return true
	default:
		return false
	}
}

func recvReady[T any](ch <-chan T, obj uintptr) bool {
	if ch == nil {
		return false
	}
	if len(ch) > 0 || (cap(ch) == 0 && hasParked(obj, 1)) {
		return true
	}
	return probeClosed(ch)
}

func sendReady[T any](ch chan<- T, obj uintptr) bool {
	if ch == nil {
		return false
	}
	return len(ch) < cap(ch) || isClosedKnown(obj) || (cap(ch) == 0 && hasParked(obj, 0))
}

// recvNow performs a receive that the scheduler has already found enabled.
func recvNow[T any](ch <-chan T, hp unsafe.Pointer) (v T, ok bool) {
	obj := uintptr(hp)
	if iv, _, served := takeInbox(); served {
		ra(hp)
		if iv != nil {
			v = iv.(T)
		}
		return v, true
	}
	if len(ch) > 0 {
		v, ok = <-ch
		return v, ok
	}
	if p, ci := parkedPartner(obj, 1); p != nil && cap(ch) == 0 {
		ra(hp)
		rr8(hp)
		iv := serve(p, ci, nil)
		if iv != nil {
			v = iv.(T)
		}
		return v, true
	}
	v, ok = <-ch // closed
	return v, ok
}

// sendNow performs a send that the scheduler has already found enabled.
func sendNow[T any](ch chan<- T, hp unsafe.Pointer, v T) {
	obj := uintptr(hp)
	if _, _, served := takeInbox(); served {
		ra8(hp)
		return
	}
	if isClosedKnown(obj) {
		noteSendOnClosed()
	}
	if isClosedKnown(obj) || len(ch) < cap(ch) {
		ch <- v // panics if closed, as in Go
		return
	}
	if p, ci := parkedPartner(obj, 0); p != nil && cap(ch) == 0 {
		ra8(hp)
		rr(hp)
		serve(p, ci, v)
		return
	}
	ch <- v
}

// Recv2 is `v, ok := <-ch`.
func Recv2[T any](ch <-chan T) (v T, ok bool) {
	if !Active() {
		if Aborting() {
			return v, false
		}
		v, ok = <-ch
		return v, ok
	}
	hp := idR(ch)
	obj := uintptr(hp)
	setOffer(nil)
	rr8(hp)
	Point(OpRecv, obj, func() bool { return recvReady(ch, obj) })
	return recvNow(ch, hp)
}

// Recv is `<-ch`.
func Recv[T any](ch <-chan T) T {
	v, _ := Recv2(ch)
	return v
}

// Send is `ch <- v`.
func Send[T any](ch chan<- T, v T) {
	if !Active() {
		if Aborting() {
			return
		}
		ch <- v
		return
	}
	hp := idS(ch)
	obj := uintptr(hp)
	setOffer(v)
	rr(hp)
	Point(OpSend, obj, func() bool { return sendReady(ch, obj) })
	sendNow(ch, hp, v)
}

// Close is `close(ch)`.
func Close[T any](ch chan T) {
	if !Active() {
		if Aborting() {
			return
		}
		close(ch)
		return
	}
	obj := uintptr(idS[T](ch))
	Point(OpClose, obj, nil)
	if isClosedKnown(obj) {
		noteDoubleClose()
	}
	close(ch)
	markClosed(obj)
}

// R builds the receive clause of a select.
func R[T any](ch <-chan T) Case {
	obj := uintptr(idR(ch))
	return Case{caseInfo{dir: 0, obj: obj, ready: func() bool { return recvReady(ch, obj) }}}
}

// S builds the send clause of a select.
func S[T any](ch chan<- T, v T) Case {
	obj := uintptr(idS(ch))
	return Case{caseInfo{dir: 1, obj: obj, ready: func() bool { return sendReady(ch, obj) }}}
}

//go:norace
func selectPoint(hasDefault bool, cases []Case) int {
	x := cur
	t := x.running
	st := &selState{def: hasDefault}
	for i, c := range cases {
		if i >= len(st.cases) {
			x.fatal("vrt: select with more than 8 cases")
			return -1
		}
		st.cases[i] = c.c
		st.n++
	}
	t.sel = st
	t.rvDone = false
	t.rvVal = nil
	ready := func() bool {
		if st.def {
			return true
		}
		for i := 0; i < st.n; i++ {
			if st.cases[i].ready() {
				return true
			}
		}
		return false
	}
	x.point(pending{kind: OpSelect, ready: ready})
	t.sel = nil
	if t.rvDone {
		// a partner completed one of our clauses while we were parked
		return t.rvCase
	}
	var idx [8]int
	n := 0
	syncOff()
	for i := 0; i < st.n; i++ {
		if st.cases[i].ready() {
			idx[n] = i
			n++
		}
	}
	syncOn()
	if n == 0 {
		return -1
	}
	if n == 1 {
		return idx[0]
	}
	k := CkData
	if x.selectFree {
		k = CkDataFree
	}
	return idx[x.choose(n, k)]
}

// Select is the scheduling point of a rewritten select statement: it returns the index of the clause
// to execute (-1: default). Which ready clause fires is an explorer choice, not Go's random pick.
// The clause body must then call RecvNow/Recv2Now/SendNow on that clause's channel.
func Select(hasDefault bool, cases ...Case) int {
	if !Active() {
		return -2
	}
	return selectPoint(hasDefault, cases)
}

// Recv2Now completes the receive clause chosen by Select.
func Recv2Now[T any](ch <-chan T) (T, bool) {
	if !Active() {
		var z T
		return z, false
	}
	return recvNow(ch, idR(ch))
}

// RecvNow completes the receive clause chosen by Select.
func RecvNow[T any](ch <-chan T) T {
	v, _ := Recv2Now(ch)
	return v
}

// SendNow completes the send clause chosen by Select.
func SendNow[T any](ch chan<- T, v T) {
	if !Active() {
		return
	}
	sendNow(ch, idS(ch), v)
}

//go:norace
func noteDoubleClose() {
	if x := cur; x != nil {
		x.res.DoubleClose++
	}
}

//go:norace
func noteSendOnClosed() {
	if x := cur; x != nil {
		x.res.SendOnClosed++
	}
}
