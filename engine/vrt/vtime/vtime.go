// Package vtime replaces "time" in the instrumented build: clocks and timers are virtual (driven by
// the scheduler's CLOCK pseudo-thread); everything else is the real package re-exported.
package vtime

import (
	"errors"
	"time"

	"verif.local/vrt"
)

type (
	Duration   = time.Duration
	Time       = time.Time
	Month      = time.Month
	Weekday    = time.Weekday
	Location   = time.Location
	ParseError = time.ParseError
)

const (
	Nanosecond  = time.Nanosecond
	Microsecond = time.Microsecond
	Millisecond = time.Millisecond
	Second      = time.Second
	Minute      = time.Minute
	Hour        = time.Hour

	Layout      = time.Layout
	ANSIC       = time.ANSIC
	UnixDate    = time.UnixDate
	RubyDate    = time.RubyDate
	RFC822      = time.RFC822
	RFC822Z     = time.RFC822Z
	RFC850      = time.RFC850
	RFC1123     = time.RFC1123
	RFC1123Z    = time.RFC1123Z
	RFC3339     = time.RFC3339
	RFC3339Nano = time.RFC3339Nano
	Kitchen     = time.Kitchen
	Stamp       = time.Stamp
	StampMilli  = time.StampMilli
	StampMicro  = time.StampMicro
	StampNano   = time.StampNano
	DateTime    = time.DateTime
	DateOnly    = time.DateOnly
	TimeOnly    = time.TimeOnly

	January   = time.January
	February  = time.February
	March     = time.March
	April     = time.April
	May       = time.May
	June      = time.June
	July      = time.July
	August    = time.August
	September = time.September
	October   = time.October
	November  = time.November
	December  = time.December

	Sunday    = time.Sunday
	Monday    = time.Monday
	Tuesday   = time.Tuesday
	Wednesday = time.Wednesday
	Thursday  = time.Thursday
	Friday    = time.Friday
	Saturday  = time.Saturday
)

var (
	UTC   = time.UTC
	Local = time.Local
)

func Date(year int, month Month, day, hour, min, sec, nsec int, loc *Location) Time {
	return time.Date(year, month, day, hour, min, sec, nsec, loc)
}
func Unix(sec, nsec int64) Time                   { return time.Unix(sec, nsec) }
func UnixMilli(ms int64) Time                     { return time.UnixMilli(ms) }
func UnixMicro(us int64) Time                     { return time.UnixMicro(us) }
func Parse(layout, value string) (Time, error)    { return time.Parse(layout, value) }
func ParseDuration(s string) (Duration, error)    { return time.ParseDuration(s) }
func LoadLocation(name string) (*Location, error) { return time.LoadLocation(name) }
func FixedZone(name string, offset int) *Location { return time.FixedZone(name, offset) }
func ParseInLocation(l, v string, loc *Location) (Time, error) {
	return time.ParseInLocation(l, v, loc)
}

// Now is the virtual wall clock.
func Now() Time { return vrt.Now() }

// Since is measured on the virtual clock.
func Since(t Time) Duration { return vrt.Now().Sub(t) }

// Until is measured on the virtual clock.
func Until(t Time) Duration { return t.Sub(vrt.Now()) }

// Sleep blocks the calling thread in virtual time.
func Sleep(d Duration) {
	if !vrt.Active() {
		if vrt.Aborting() {
			return
		}
		time.Sleep(d)
		return
	}
	vrt.Sleep(int64(d))
}

// Timer replaces time.Timer.
type Timer struct {
	C  <-chan Time
	c  chan Time
	tm *vrt.Timer
	rt *time.Timer
}

func fireInto(c chan Time) func(int64) {
	return func(ns int64) {
		select {
		case c <- vrt.Base.Add(Duration(ns)):
		default:
		}
	}
}

func NewTimer(d Duration) *Timer {
	if !vrt.Active() {
		rt := time.NewTimer(d)
		return &Timer{C: rt.C, rt: rt}
	}
	c := make(chan Time, 1)
	return &Timer{C: c, c: c, tm: vrt.NewChanTimer(int64(d), 0, fireInto(c))}
}

func After(d Duration) <-chan Time { return NewTimer(d).C }

func AfterFunc(d Duration, f func()) *Timer {
	if !vrt.Active() {
		return &Timer{rt: time.AfterFunc(d, f)}
	}
	return &Timer{tm: vrt.AfterFunc(int64(d), f)}
}

func (t *Timer) Stop() bool {
	if t.rt != nil {
		return t.rt.Stop()
	}
	return t.tm.Stop()
}

func (t *Timer) Reset(d Duration) bool {
	if t.rt != nil {
		return t.rt.Reset(d)
	}
	return t.tm.Reset(int64(d))
}

// Ticker replaces time.Ticker.
type Ticker struct {
	C  <-chan Time
	c  chan Time
	tm *vrt.Timer
	rt *time.Ticker
}

func NewTicker(d Duration) *Ticker {
	if d <= 0 {
		panic(errors.New("non-positive interval for NewTicker"))
	}
	if !vrt.Active() {
		rt := time.NewTicker(d)
		return &Ticker{C: rt.C, rt: rt}
	}
	c := make(chan Time, 1)
	return &Ticker{C: c, c: c, tm: vrt.NewChanTimer(int64(d), int64(d), fireInto(c))}
}

func Tick(d Duration) <-chan Time {
	if d <= 0 {
		return nil
	}
	return NewTicker(d).C
}

func (t *Ticker) Stop() {
	if t.rt != nil {
		t.rt.Stop()
		return
	}
	t.tm.Stop()
}

func (t *Ticker) Reset(d Duration) {
	if d <= 0 {
		panic("non-positive interval for Ticker.Reset")
	}
	if t.rt != nil {
		t.rt.Reset(d)
		return
	}
	t.tm.ResetPeriod(int64(d))
}
