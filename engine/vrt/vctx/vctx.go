// Package vctx provides context.WithTimeout / WithDeadline driven by the virtual clock.
package vctx

import (
	"context"
	"sync"
	"time"

	"verif.local/vrt"
)

type timerCtx struct {
	context.Context
	deadline time.Time
	mu       sync.Mutex
	timedOut bool
}

func (c *timerCtx) Deadline() (time.Time, bool) { return c.deadline, true }

func (c *timerCtx) Err() error {
	err := c.Context.Err()
	if err == nil {
		return nil
	}
	c.mu.Lock()
	defer c.mu.Unlock()
	if c.timedOut {
		return context.DeadlineExceeded
	}
	return err
}

// WithDeadline is context.WithDeadline on the virtual clock. Contexts derived from the result are
// cancelled synchronously with it; they report context.Canceled where the real package would report
// DeadlineExceeded (the result itself reports DeadlineExceeded).
func WithDeadline(parent context.Context, d time.Time) (context.Context, context.CancelFunc) {
	if !vrt.Active() {
		return context.WithDeadline(parent, d)
	}
	if cur, ok := parent.Deadline(); ok && cur.Before(d) {
		return context.WithCancel(parent)
	}
	inner, cancel := context.WithCancel(parent)
	c := &timerCtx{Context: inner, deadline: d}
	dur := d.Sub(vrt.Now())
	tm := vrt.NewChanTimer(int64(dur), 0, func(int64) {
		c.mu.Lock()
		if inner.Err() == nil {
			c.timedOut = true
		}
		c.mu.Unlock()
		cancel()
	})
	return c, func() {
		if tm.Active() {
			tm.Stop()
		}
		cancel()
	}
}

// WithTimeout is context.WithTimeout on the virtual clock.
func WithTimeout(parent context.Context, timeout time.Duration) (context.Context, context.CancelFunc) {
	if !vrt.Active() {
		return context.WithTimeout(parent, timeout)
	}
	return WithDeadline(parent, vrt.Now().Add(timeout))
}
