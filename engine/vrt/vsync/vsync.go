// Package vsync replaces "sync" in the instrumented build. Every type wraps the real primitive (which
// is still taken, so the race detector sees the program's own synchronisation) and adds the model state
// the scheduler needs to know whether an operation can proceed.
package vsync

import (
	"sync"
	"unsafe"

	"verif.local/vrt"
)

type Locker = sync.Locker

// Mutex replaces sync.Mutex.
type Mutex struct {
	m  sync.Mutex
	st vrt.Mu
}

func (m *Mutex) Lock() {
	if vrt.Aborting() {
		return
	}
	m.st.LockPoint()
	m.m.Lock()
}

func (m *Mutex) TryLock() bool {
	if vrt.Aborting() {
		return true
	}
	if !vrt.Active() {
		return m.m.TryLock()
	}
	if !m.st.TryLockPoint() {
		return false
	}
	m.m.Lock()
	return true
}

func (m *Mutex) Unlock() {
	if vrt.Aborting() {
		return
	}
	if !m.st.UnlockModel() {
		return
	}
	m.m.Unlock()
	vrt.AfterUnlock(uintptr(unsafe.Pointer(m)))
}

// RWMutex replaces sync.RWMutex.
type RWMutex struct {
	m  sync.RWMutex
	st vrt.RW
}

func (m *RWMutex) Lock() {
	if vrt.Aborting() {
		return
	}
	m.st.LockPoint()
	m.m.Lock()
}

func (m *RWMutex) TryLock() bool {
	if vrt.Aborting() {
		return true
	}
	if !vrt.Active() {
		return m.m.TryLock()
	}
	if !m.st.TryLockPoint() {
		return false
	}
	m.m.Lock()
	return true
}

func (m *RWMutex) Unlock() {
	if vrt.Aborting() {
		return
	}
	if !m.st.UnlockModel() {
		return
	}
	m.m.Unlock()
	vrt.AfterUnlock(uintptr(unsafe.Pointer(m)))
}

func (m *RWMutex) RLock() {
	if vrt.Aborting() {
		return
	}
	m.st.RLockPoint()
	m.m.RLock()
}

func (m *RWMutex) TryRLock() bool {
	if vrt.Aborting() {
		return true
	}
	if !vrt.Active() {
		return m.m.TryRLock()
	}
	if !m.st.TryRLockPoint() {
		return false
	}
	m.m.RLock()
	return true
}

func (m *RWMutex) RUnlock() {
	if vrt.Aborting() {
		return
	}
	if !m.st.RUnlockModel() {
		return
	}
	m.m.RUnlock()
	vrt.AfterUnlock(uintptr(unsafe.Pointer(m)))
}

func (m *RWMutex) RLocker() Locker { return (*rlocker)(m) }

type rlocker RWMutex

func (r *rlocker) Lock()   { (*RWMutex)(r).RLock() }
func (r *rlocker) Unlock() { (*RWMutex)(r).RUnlock() }

// Once replaces sync.Once.
type Once struct {
	o  sync.Once
	st vrt.OnceSt
}

func (o *Once) Do(f func()) {
	if vrt.Aborting() {
		return
	}
	if !vrt.Active() {
		o.o.Do(f)
		return
	}
	o.st.OncePoint()
	o.o.Do(func() {
		o.st.SetRunning(true)
		defer o.st.SetRunning(false)
		f()
	})
}

// WaitGroup replaces sync.WaitGroup.
type WaitGroup struct {
	wg sync.WaitGroup
	st vrt.WG
}

func (w *WaitGroup) Add(d int) {
	if vrt.Aborting() {
		return
	}
	w.st.AddModel(d)
	w.wg.Add(d)
}

func (w *WaitGroup) Done() { w.Add(-1) }

func (w *WaitGroup) Wait() {
	if vrt.Aborting() {
		return
	}
	w.st.WaitPoint()
	w.wg.Wait()
}

// Map replaces sync.Map with an insertion-ordered map, so that Range order (which decides which
// observer of a subject is served first) is deterministic. It is guarded by one real mutex; in a
// -race build this can only hide races that go through map operations, never invent one.
type Map struct {
	mu   sync.Mutex
	keys []interface{}
	vals []interface{}
}

func (m *Map) idx(k interface{}) int {
	for i := range m.keys {
		if m.keys[i] == k {
			return i
		}
	}
	return -1
}

func (m *Map) pt() { vrt.Point(vrt.OpMap, uintptr(unsafe.Pointer(m)), nil) }

func (m *Map) Load(k interface{}) (interface{}, bool) {
	m.pt()
	m.mu.Lock()
	defer m.mu.Unlock()
	if i := m.idx(k); i >= 0 {
		return m.vals[i], true
	}
	return nil, false
}

func (m *Map) Store(k, v interface{}) {
	m.pt()
	m.mu.Lock()
	defer m.mu.Unlock()
	if i := m.idx(k); i >= 0 {
		m.vals[i] = v
		return
	}
	m.keys = append(m.keys, k)
	m.vals = append(m.vals, v)
}

func (m *Map) LoadOrStore(k, v interface{}) (interface{}, bool) {
	m.pt()
	m.mu.Lock()
	defer m.mu.Unlock()
	if i := m.idx(k); i >= 0 {
		return m.vals[i], true
	}
	m.keys = append(m.keys, k)
	m.vals = append(m.vals, v)
	return v, false
}

func (m *Map) del(k interface{}) (interface{}, bool) {
	if i := m.idx(k); i >= 0 {
		v := m.vals[i]
		m.keys = append(append([]interface{}{}, m.keys[:i]...), m.keys[i+1:]...)
		m.vals = append(append([]interface{}{}, m.vals[:i]...), m.vals[i+1:]...)
		return v, true
	}
	return nil, false
}

func (m *Map) LoadAndDelete(k interface{}) (interface{}, bool) {
	m.pt()
	m.mu.Lock()
	defer m.mu.Unlock()
	return m.del(k)
}

func (m *Map) Delete(k interface{}) {
	m.pt()
	m.mu.Lock()
	defer m.mu.Unlock()
	m.del(k)
}

func (m *Map) Swap(k, v interface{}) (interface{}, bool) {
	m.pt()
	m.mu.Lock()
	defer m.mu.Unlock()
	if i := m.idx(k); i >= 0 {
		old := m.vals[i]
		m.vals[i] = v
		return old, true
	}
	m.keys = append(m.keys, k)
	m.vals = append(m.vals, v)
	return nil, false
}

func (m *Map) CompareAndSwap(k, old, nw interface{}) bool {
	m.pt()
	m.mu.Lock()
	defer m.mu.Unlock()
	if i := m.idx(k); i >= 0 && m.vals[i] == old {
		m.vals[i] = nw
		return true
	}
	return false
}

func (m *Map) CompareAndDelete(k, old interface{}) bool {
	m.pt()
	m.mu.Lock()
	defer m.mu.Unlock()
	if i := m.idx(k); i >= 0 && m.vals[i] == old {
		m.del(k)
		return true
	}
	return false
}

// Range calls f for a snapshot of the entries in insertion order (sync.Map allows f to call any
// method of the map; entries deleted meanwhile are skipped, as sync.Map may do).
func (m *Map) Range(f func(k, v interface{}) bool) {
	m.pt()
	m.mu.Lock()
	keys := append([]interface{}{}, m.keys...)
	m.mu.Unlock()
	for _, k := range keys {
		m.mu.Lock()
		i := m.idx(k)
		var v interface{}
		if i >= 0 {
			v = m.vals[i]
		}
		m.mu.Unlock()
		if i < 0 {
			continue
		}
		if !f(k, v) {
			return
		}
	}
}

func (m *Map) Clear() {
	m.pt()
	m.mu.Lock()
	defer m.mu.Unlock()
	m.keys, m.vals = nil, nil
}

// Pool and Cond are passed through (not used by the code under test today).
type Pool = sync.Pool
