//go:build !race

package vrt

import "unsafe"

// RaceMode reports whether the binary was built with the race detector.
const RaceMode = false

func syncOff()                          {}
func syncOn()                           {}
func raceReleaseMerge(p unsafe.Pointer) {}
func raceAcquire(p unsafe.Pointer)      {}
func raceRelease(p unsafe.Pointer)      {}
