// Package explore enumerates every execution of a closed scenario whose deviation cost (preemptions,
// early timer expiries, non-default select/environment choices) stays within a bound: stateless
// depth-first search over choice prefixes, as in CHESS's iterative context bounding.
package explore

import (
	"fmt"
	"time"

	"verif.local/vrt"
)

// Stats describes what a search covered.
type Stats struct {
	Executions  int    `json:"executions"`
	Transitions int64  `json:"transitions"` // scheduling points passed, summed over executions
	Switches    int64  `json:"switches"`
	ChoicePts   int64  `json:"choice_points"`
	MaxDepth    int    `json:"max_depth"` // longest choice list
	MaxThreads  int    `json:"max_threads"`
	Bound       int    `json:"bound"`
	Complete    bool   `json:"complete"` // false if a cap or deadline stopped the search
	CapReason   string `json:"cap_reason,omitempty"`
}

// Limits stops a search early (reported, never silently).
type Limits struct {
	MaxExecutions int
	Deadline      time.Time
}

// RunFn executes the scenario once with the given choice prefix.
type RunFn func(prefix []int) *vrt.Result

// VisitFn inspects one finished execution; returning false stops the search.
type VisitFn func(prefix []int, r *vrt.Result) bool

type frame struct {
	prefix []int
	cost   int
}

// DFS explores all executions with total deviation cost <= bound.
func DFS(run RunFn, bound int, lim Limits, visit VisitFn) Stats {
	st := Stats{Bound: bound, Complete: true}
	stack := []frame{{prefix: nil, cost: 0}}
	for len(stack) > 0 {
		f := stack[len(stack)-1]
		stack = stack[:len(stack)-1]
		if lim.MaxExecutions > 0 && st.Executions >= lim.MaxExecutions {
			st.Complete = false
			st.CapReason = fmt.Sprintf("execution cap %d", lim.MaxExecutions)
			break
		}
		if !lim.Deadline.IsZero() && st.Executions%64 == 0 && time.Now().After(lim.Deadline) {
			st.Complete = false
			st.CapReason = "deadline"
			break
		}
		r := run(f.prefix)
		st.Executions++
		st.Transitions += int64(r.Steps)
		st.Switches += int64(r.Switches)
		st.ChoicePts += int64(len(r.Choices))
		if len(r.Choices) > st.MaxDepth {
			st.MaxDepth = len(r.Choices)
		}
		if r.Threads > st.MaxThreads {
			st.MaxThreads = r.Threads
		}
		if r.Diverged != "" {
			panic("explore: replay diverged: " + r.Diverged)
		}
		if len(r.Choices) < len(f.prefix) {
			panic(fmt.Sprintf("explore: replay diverged: execution ended after %d choices, prefix has %d", len(r.Choices), len(f.prefix)))
		}
		if !visit(f.prefix, r) {
			st.Complete = false
			st.CapReason = "stopped by visitor"
			break
		}
		// push alternatives in reverse so that the leftmost is explored first
		for i := len(r.Choices) - 1; i >= len(f.prefix); i-- {
			ch := r.Choices[i]
			for alt := ch.N - 1; alt >= 1; alt-- {
				c := f.cost + ch.Cost(alt)
				if c > bound {
					continue
				}
				np := make([]int, i+1)
				for k := 0; k < i; k++ {
					np[k] = r.Choices[k].Chosen
				}
				np[i] = alt
				stack = append(stack, frame{prefix: np, cost: c})
			}
		}
	}
	return st
}

// ChoiceList flattens a result's choices into a replayable prefix.
func ChoiceList(r *vrt.Result) []int {
	out := make([]int, len(r.Choices))
	for i, c := range r.Choices {
		out[i] = c.Chosen
	}
	return out
}
