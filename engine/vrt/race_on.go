//go:build race

package vrt

import (
	"runtime"
	"unsafe"
)

// RaceMode reports whether the binary was built with the race detector.
const RaceMode = true

//go:norace
func syncOff() { runtime.RaceDisable() }

//go:norace
func syncOn() { runtime.RaceEnable() }

//go:norace
func raceReleaseMerge(p unsafe.Pointer) { runtime.RaceReleaseMerge(p) }

//go:norace
func raceAcquire(p unsafe.Pointer) { runtime.RaceAcquire(p) }

//go:norace
func raceRelease(p unsafe.Pointer) { runtime.RaceRelease(p) }
