// Package vatomic replaces "sync/atomic" in the instrumented build: every access is a scheduling
// point followed by the real atomic operation.
package vatomic

import (
	"sync/atomic"
	"unsafe"

	"verif.local/vrt"
)

func pt(p unsafe.Pointer) { vrt.AtomicPoint(uintptr(p)) }

// ptRead is pt for operations that cannot change memory: a load is a scheduling point but not progress
// (otherwise two goroutines spinning on a flag re-enable each other for ever while its owner never runs).
func ptRead(p unsafe.Pointer) { vrt.AtomicPoint(uintptr(p)); vrt.NoProgress() }

// casResult: a failed compare-and-swap changed nothing: no progress either.
func casResult(ok bool) bool {
	if !ok {
		vrt.NoProgress()
	}
	return ok
}

func LoadInt32(a *int32) int32          { pt(unsafe.Pointer(a)); return atomic.LoadInt32(a) }
func StoreInt32(a *int32, v int32)      { pt(unsafe.Pointer(a)); atomic.StoreInt32(a, v) }
func AddInt32(a *int32, d int32) int32  { pt(unsafe.Pointer(a)); return atomic.AddInt32(a, d) }
func SwapInt32(a *int32, v int32) int32 { pt(unsafe.Pointer(a)); return atomic.SwapInt32(a, v) }
func CompareAndSwapInt32(a *int32, o, n int32) bool {
	pt(unsafe.Pointer(a))
	return casResult(atomic.CompareAndSwapInt32(a, o, n))
}

type Int32 struct{ v atomic.Int32 }

func (x *Int32) Load() int32        { ptRead(unsafe.Pointer(x)); return x.v.Load() }
func (x *Int32) Store(v int32)      { pt(unsafe.Pointer(x)); x.v.Store(v) }
func (x *Int32) Add(d int32) int32  { pt(unsafe.Pointer(x)); return x.v.Add(d) }
func (x *Int32) Swap(v int32) int32 { pt(unsafe.Pointer(x)); return x.v.Swap(v) }
func (x *Int32) CompareAndSwap(o, n int32) bool {
	pt(unsafe.Pointer(x))
	return casResult(x.v.CompareAndSwap(o, n))
}

func LoadInt64(a *int64) int64          { pt(unsafe.Pointer(a)); return atomic.LoadInt64(a) }
func StoreInt64(a *int64, v int64)      { pt(unsafe.Pointer(a)); atomic.StoreInt64(a, v) }
func AddInt64(a *int64, d int64) int64  { pt(unsafe.Pointer(a)); return atomic.AddInt64(a, d) }
func SwapInt64(a *int64, v int64) int64 { pt(unsafe.Pointer(a)); return atomic.SwapInt64(a, v) }
func CompareAndSwapInt64(a *int64, o, n int64) bool {
	pt(unsafe.Pointer(a))
	return casResult(atomic.CompareAndSwapInt64(a, o, n))
}

type Int64 struct{ v atomic.Int64 }

func (x *Int64) Load() int64        { ptRead(unsafe.Pointer(x)); return x.v.Load() }
func (x *Int64) Store(v int64)      { pt(unsafe.Pointer(x)); x.v.Store(v) }
func (x *Int64) Add(d int64) int64  { pt(unsafe.Pointer(x)); return x.v.Add(d) }
func (x *Int64) Swap(v int64) int64 { pt(unsafe.Pointer(x)); return x.v.Swap(v) }
func (x *Int64) CompareAndSwap(o, n int64) bool {
	pt(unsafe.Pointer(x))
	return casResult(x.v.CompareAndSwap(o, n))
}

func LoadUint32(a *uint32) uint32           { pt(unsafe.Pointer(a)); return atomic.LoadUint32(a) }
func StoreUint32(a *uint32, v uint32)       { pt(unsafe.Pointer(a)); atomic.StoreUint32(a, v) }
func AddUint32(a *uint32, d uint32) uint32  { pt(unsafe.Pointer(a)); return atomic.AddUint32(a, d) }
func SwapUint32(a *uint32, v uint32) uint32 { pt(unsafe.Pointer(a)); return atomic.SwapUint32(a, v) }
func CompareAndSwapUint32(a *uint32, o, n uint32) bool {
	pt(unsafe.Pointer(a))
	return casResult(atomic.CompareAndSwapUint32(a, o, n))
}

type Uint32 struct{ v atomic.Uint32 }

func (x *Uint32) Load() uint32         { ptRead(unsafe.Pointer(x)); return x.v.Load() }
func (x *Uint32) Store(v uint32)       { pt(unsafe.Pointer(x)); x.v.Store(v) }
func (x *Uint32) Add(d uint32) uint32  { pt(unsafe.Pointer(x)); return x.v.Add(d) }
func (x *Uint32) Swap(v uint32) uint32 { pt(unsafe.Pointer(x)); return x.v.Swap(v) }
func (x *Uint32) CompareAndSwap(o, n uint32) bool {
	pt(unsafe.Pointer(x))
	return casResult(x.v.CompareAndSwap(o, n))
}

func LoadUint64(a *uint64) uint64           { pt(unsafe.Pointer(a)); return atomic.LoadUint64(a) }
func StoreUint64(a *uint64, v uint64)       { pt(unsafe.Pointer(a)); atomic.StoreUint64(a, v) }
func AddUint64(a *uint64, d uint64) uint64  { pt(unsafe.Pointer(a)); return atomic.AddUint64(a, d) }
func SwapUint64(a *uint64, v uint64) uint64 { pt(unsafe.Pointer(a)); return atomic.SwapUint64(a, v) }
func CompareAndSwapUint64(a *uint64, o, n uint64) bool {
	pt(unsafe.Pointer(a))
	return casResult(atomic.CompareAndSwapUint64(a, o, n))
}

type Uint64 struct{ v atomic.Uint64 }

func (x *Uint64) Load() uint64         { ptRead(unsafe.Pointer(x)); return x.v.Load() }
func (x *Uint64) Store(v uint64)       { pt(unsafe.Pointer(x)); x.v.Store(v) }
func (x *Uint64) Add(d uint64) uint64  { pt(unsafe.Pointer(x)); return x.v.Add(d) }
func (x *Uint64) Swap(v uint64) uint64 { pt(unsafe.Pointer(x)); return x.v.Swap(v) }
func (x *Uint64) CompareAndSwap(o, n uint64) bool {
	pt(unsafe.Pointer(x))
	return casResult(x.v.CompareAndSwap(o, n))
}

func LoadUintptr(a *uintptr) uintptr           { pt(unsafe.Pointer(a)); return atomic.LoadUintptr(a) }
func StoreUintptr(a *uintptr, v uintptr)       { pt(unsafe.Pointer(a)); atomic.StoreUintptr(a, v) }
func AddUintptr(a *uintptr, d uintptr) uintptr { pt(unsafe.Pointer(a)); return atomic.AddUintptr(a, d) }
func SwapUintptr(a *uintptr, v uintptr) uintptr {
	pt(unsafe.Pointer(a))
	return atomic.SwapUintptr(a, v)
}
func CompareAndSwapUintptr(a *uintptr, o, n uintptr) bool {
	pt(unsafe.Pointer(a))
	return casResult(atomic.CompareAndSwapUintptr(a, o, n))
}

type Uintptr struct{ v atomic.Uintptr }

func (x *Uintptr) Load() uintptr          { ptRead(unsafe.Pointer(x)); return x.v.Load() }
func (x *Uintptr) Store(v uintptr)        { pt(unsafe.Pointer(x)); x.v.Store(v) }
func (x *Uintptr) Add(d uintptr) uintptr  { pt(unsafe.Pointer(x)); return x.v.Add(d) }
func (x *Uintptr) Swap(v uintptr) uintptr { pt(unsafe.Pointer(x)); return x.v.Swap(v) }
func (x *Uintptr) CompareAndSwap(o, n uintptr) bool {
	pt(unsafe.Pointer(x))
	return casResult(x.v.CompareAndSwap(o, n))
}

func LoadPointer(a *unsafe.Pointer) unsafe.Pointer {
	ptRead(unsafe.Pointer(a))
	return atomic.LoadPointer(a)
}
func StorePointer(a *unsafe.Pointer, v unsafe.Pointer) {
	pt(unsafe.Pointer(a))
	atomic.StorePointer(a, v)
}
func SwapPointer(a *unsafe.Pointer, v unsafe.Pointer) unsafe.Pointer {
	pt(unsafe.Pointer(a))
	return atomic.SwapPointer(a, v)
}
func CompareAndSwapPointer(a *unsafe.Pointer, o, n unsafe.Pointer) bool {
	pt(unsafe.Pointer(a))
	return casResult(atomic.CompareAndSwapPointer(a, o, n))
}

type Bool struct{ v atomic.Bool }

func (x *Bool) Load() bool       { ptRead(unsafe.Pointer(x)); return x.v.Load() }
func (x *Bool) Store(v bool)     { pt(unsafe.Pointer(x)); x.v.Store(v) }
func (x *Bool) Swap(v bool) bool { pt(unsafe.Pointer(x)); return x.v.Swap(v) }
func (x *Bool) CompareAndSwap(o, n bool) bool {
	pt(unsafe.Pointer(x))
	return casResult(x.v.CompareAndSwap(o, n))
}

type Pointer[T any] struct{ v atomic.Pointer[T] }

func (x *Pointer[T]) Load() *T     { ptRead(unsafe.Pointer(x)); return x.v.Load() }
func (x *Pointer[T]) Store(v *T)   { pt(unsafe.Pointer(x)); x.v.Store(v) }
func (x *Pointer[T]) Swap(v *T) *T { pt(unsafe.Pointer(x)); return x.v.Swap(v) }
func (x *Pointer[T]) CompareAndSwap(o, n *T) bool {
	pt(unsafe.Pointer(x))
	return casResult(x.v.CompareAndSwap(o, n))
}

type Value struct{ v atomic.Value }

func (x *Value) Load() interface{}              { pt(unsafe.Pointer(x)); return x.v.Load() }
func (x *Value) Store(v interface{})            { pt(unsafe.Pointer(x)); x.v.Store(v) }
func (x *Value) Swap(v interface{}) interface{} { pt(unsafe.Pointer(x)); return x.v.Swap(v) }
func (x *Value) CompareAndSwap(o, n interface{}) bool {
	pt(unsafe.Pointer(x))
	return casResult(x.v.CompareAndSwap(o, n))
}
