package main

var commonAssume = []string{
	"scheduling points sit at the synchronisation operations of the instrumented code (sync, sync/atomic, channels, select, timers, go); code between two points runs atomically (plain unsynchronised accesses are the business of C13's race-detector pass)",
	"atomics are sequentially consistent, as in the Go memory model; no compiler/hardware reordering of racy code is modelled",
	"time is virtual: timers fire only through the scheduler's CLOCK pseudo-thread",
	"bounds (script length, threads, deviation bound) are those stated in coverage.rule; behaviours beyond them are not covered",
}

var props = map[string]propConf{
	"C01": {level: "model_checking", worker: "worker", quickDL: 150, thorDL: 1200,
		rule:   "every catalogue operator (each parameter value) and every ordered pair of chainable operators x every producer script over {Next a, Next b, Error, Complete} up to length 3 quick / 5 (pairs 4) thorough, illegal suffixes after a terminal included, played by a cold source built with each of the three constructors; oracle: the final observer's trace is in Next*(Error|Complete)?, equals the trace obtained from the script's legal prefix alone (late notifications are discarded), and the dropped-notification hook saw every late notification; plus 2-3 threads emitting scripts concurrently into one safe destination / subject, all schedules within the bound; non-trivial = distinct (program, script) with >= 1 notification, by outcome",
		assume: commonAssume},
	"C03": {level: "model_checking", worker: "worker", quickDL: 150, thorDL: 1200,
		rule:   "every catalogue operator and ordered pair x every legal script (<= 3 values quick / 4 thorough; pairs 2 / 3) ending in completion, error, or never (then Unsubscribe) on a cold source, and on a pushed source with Unsubscribe at every prefix position from outside and from inside the k-th callback; oracle: per-source teardown count == subscription count, no live subscription, no managed goroutine blocked, no virtual timer armed; plus all schedules (bound 3) of Complete/Error/Unsubscribe/Add/Wait races on one subscriber with counted teardowns, and every subset of panicking teardowns",
		assume: commonAssume},
	"C07": {level: "fault_enumeration", worker: "worker", quickDL: 150, thorDL: 1200,
		rule:   "fault enumeration: for every catalogue operator and every legal script (<= 2 values quick / 3 thorough) a fault-free run discovers the user-callback slots and their invocation counts; then every (slot, invocation index <= 3, kind in {panic(error), panic(string), returned error where the callback can return one}) is injected, one fault per execution; likewise every notification index of the final observer's own callbacks and every position of the source's subscribe function; pairs of operators on a core set (quick) / all ordered pairs (thorough); asynchronous positions (Future, Start, Defer, Iif, callbacks behind Interval/Delay/ObserveOn/FromChannel) under the scheduler. Oracle: no panic reaches the caller or a goroutine top, values before the fault are a prefix of the fault-free run, exactly one Error matching the cause and nothing after, a fresh subscription afterwards neither panics nor blocks, failures nobody can receive reach a hook; non-trivial = executions in which the fault actually fired",
		assume: commonAssume},
	"C08": {level: "model_checking", worker: "worker", quickDL: 150, thorDL: 1200,
		rule:   "every synchronous catalogue operator and ordered pair x every legal script (<= 3 values quick / 5 thorough; pairs 2 / 3) pushed notification by notification: right after each Next/terminal returns the observer must hold exactly the reference model's output for the prefix, every callback ran on the pushing thread and no goroutine was spawned; hand-off operators (ObserveOn, SubscribeOn, ToChannel): capacities 1-3, input lengths 0..n+3, all schedules of producer and consumer within the bound, FIFO/no loss/terminal last/producer never ahead by more than capacity+2",
		assume: commonAssume},
	"C09": {level: "model_checking", worker: "worker", quickDL: 150, thorDL: 1200,
		rule:   "every catalogue operator, the same operator behind an upstream ContextWithValue, and every ordered pair x every legal script (<= 3 values quick / 4 thorough; pairs 2 / 3) with marker values attached at SubscribeWithContext, mid-pipeline and per source item; oracle at every callback of the final observer and every context-aware operator callback: context non-nil, subscription marker visible, mid-pipeline marker visible, a per-item marker visible on values (per the row's rule), and every source subscribed with a context carrying the subscription marker",
		assume: commonAssume},
	"C12": {level: "model_checking", worker: "worker", quickDL: 150, thorDL: 1200,
		rule:   "every catalogue operator and ordered pair x every legal script (<= 3 values quick / 4 thorough; pairs 2 / 3): three sequential subscriptions to one pipeline value each compared with a freshly built pipeline, source subscription count per subscription equal to the definition's; one operator value applied to three different sources and subscribed in all 6 orders, each compared with its fresh twin, no source subscribed at construction; two concurrent subscribers under all schedules within the bound",
		assume: commonAssume},
	"C04": {level: "model_checking", worker: "worker", quickDL: 150, thorDL: 1200,
		rule:   "every catalogue operator configuration x every legal input script (values over a 2-letter alphabet, length <= 3 quick / 5 thorough, endings complete / error / none), run on the real code on a cold synchronous source (whole trace compared with the executable reference model) and on a pushed source (trace compared with the model after every single notification); plus all ordered pairs of chainable operators (composition of the models); non-trivial = distinct (operator, script) pairs whose script has at least one notification",
		assume: commonAssume},
	"C02": {level: "model_checking", worker: "worker", quickDL: 150, thorDL: 1200,
		rule:   "stateless DFS over all schedules (thread interleavings at lock/atomic/channel/timer points, CLOCK advances, select choices) of each closed driver with deviation cost <= bound (quick: 2 bare / 1 in chains; thorough: 3 / 2): 2 producer threads (or producers + virtual clock) per multi-source/timed/hand-off operator and per subject, each alone and followed by Map/StartWith/TapOnSubscribe/TapOnFinalize/Catch; every callback of the final observer (and of every inner window/group observer) contains a yield; non-trivial = executions with > 2 context switches that delivered something, counted by distinct observer outcome per case",
		assume: commonAssume},
}
