package main

var commonAssume = []string{
	"scheduling points sit at the synchronisation operations of the instrumented code (sync, sync/atomic, channels, select, timers, go); code between two points runs atomically (plain unsynchronised accesses are the business of C13's race-detector pass)",
	"atomics are sequentially consistent, as in the Go memory model; no compiler/hardware reordering of racy code is modelled",
	"time is virtual: timers fire only through the scheduler's CLOCK pseudo-thread",
	"bounds (script length, threads, deviation bound) are those stated in coverage.rule; behaviours beyond them are not covered",
}

var props = map[string]propConf{
	"C02": {level: "model_checking", worker: "worker", quickDL: 150, thorDL: 1200,
		rule:   "stateless DFS over all schedules (thread interleavings at lock/atomic/channel/timer points, CLOCK advances, select choices) of each closed driver with deviation cost <= bound (quick: 2 bare / 1 in chains; thorough: 3 / 2): 2 producer threads (or producers + virtual clock) per multi-source/timed/hand-off operator and per subject, each alone and followed by Map/StartWith/TapOnSubscribe/TapOnFinalize/Catch; every callback of the final observer (and of every inner window/group observer) contains a yield; non-trivial = executions with > 2 context switches that delivered something, counted by distinct observer outcome per case",
		assume: commonAssume},
}
