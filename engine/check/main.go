// Command check is the entry point of every registered check:
//
//	check <property> --tier quick|thorough [--replay file] [--only substr] [--keep]
//
// It instruments the current working tree of /repo into a build overlay, builds the worker against
// it (with -race for C13), runs the worker's scenarios over all cores, merges the reports, matches
// violations against known_findings.json, writes evidence/<property>.json and replay files, prints
// KNOWN-FINDING / VIOLATION lines and exits 0 (held), 1 (violation) or 2 (machinery error).
package main

import (
	"bytes"
	"encoding/json"
	"fmt"
	"os"
	"os/exec"
	"path/filepath"
	"runtime"
	"sort"
	"strconv"
	"strings"
	"sync"
	"time"
)

type violation struct {
	Property  string `json:"property"`
	Signature string `json:"signature"`
	Scenario  string `json:"scenario"`
	Case      string `json:"case"`
	Detail    string `json:"detail"`
	Choices   []int  `json:"choices"`
	Pinned    bool   `json:"pinned,omitempty"`
}

type stats struct {
	Scenarios    int              `json:"scenarios"`
	Cases        int              `json:"cases"`
	Executions   int64            `json:"executions"`
	Transitions  int64            `json:"transitions"`
	ChoicePoints int64            `json:"choice_points"`
	Switches     int64            `json:"switches"`
	MaxDepth     int              `json:"max_depth"`
	MaxThreads   int              `json:"max_threads"`
	Outcomes     int64            `json:"distinct_outcomes"`
	Nontrivial   int64            `json:"distinct_nontrivial"`
	States       int64            `json:"states"`
	Incomplete   []string         `json:"incomplete,omitempty"`
	Unmodelled   []string         `json:"unmodelled,omitempty"`
	Vacuous      []string         `json:"single_outcome_cases,omitempty"`
	ByGroup      map[string]int   `json:"executions_by_group,omitempty"`
	Extra        map[string]int64 `json:"extra,omitempty"`
}

type report struct {
	Stats      stats         `json:"stats"`
	Violations []violation   `json:"violations"`
	Samples    []interface{} `json:"samples"`
	WallS      float64       `json:"wall_s"`
}

type knownFile struct {
	Findings []struct {
		Property    string `json:"property"`
		Signature   string `json:"signature"`
		Description string `json:"description"`
	} `json:"findings"`
	Fixed []string `json:"fixed"`
}

// propConf says what a property's worker needs.
type propConf struct {
	level    string
	worker   string // cmd/<worker>
	race     bool
	extraPkg []string // additional package dirs to instrument (relative to /repo or absolute), with flags
	quickDL  int      // per-worker deadline seconds
	thorDL   int
	rule     string
	assume   []string
}

const repo = "/repo"

var verifDir string

func die(code int, f string, a ...interface{}) {
	fmt.Fprintf(os.Stderr, "check: "+f+"\n", a...)
	os.Exit(code)
}

func goEnv() []string {
	env := os.Environ()
	env = append(env, "GOFLAGS=-mod=mod", "GOPROXY=off", "GOSUMDB=off", "GOTOOLCHAIN=local", "GOWORK=off")
	return env
}

func run(dir string, env []string, name string, args ...string) (string, string, error) {
	cmd := exec.Command(name, args...)
	cmd.Dir = dir
	cmd.Env = env
	var out, errb bytes.Buffer
	cmd.Stdout = &out
	cmd.Stderr = &errb
	err := cmd.Run()
	return out.String(), errb.String(), err
}

func main() {
	if len(os.Args) < 2 {
		die(2, "usage: check <property> --tier quick|thorough [--replay file]")
	}
	prop := os.Args[1]
	tier := "quick"
	if t := os.Getenv("VERIF_TIER"); t == "quick" || t == "thorough" {
		tier = t
	}
	var replay, only string
	keep := false
	for i := 2; i < len(os.Args); i++ {
		switch os.Args[i] {
		case "--tier":
			i++
			tier = os.Args[i]
		case "--replay":
			i++
			replay = os.Args[i]
		case "--only":
			i++
			only = os.Args[i]
		case "--keep":
			keep = true
		}
	}
	seed := 0
	if s := os.Getenv("VERIF_SEED"); s != "" {
		seed, _ = strconv.Atoi(s)
	}
	exe, _ := os.Executable()
	verifDir = filepath.Dir(filepath.Dir(exe))
	if _, err := os.Stat(filepath.Join(verifDir, "harness")); err != nil {
		verifDir = "/verif"
	}
	conf, ok := props[prop]
	if !ok {
		die(2, "unknown property %s", prop)
	}
	start := time.Now()

	scratch := filepath.Join(verifDir, ".scratch", prop+"-"+tier)
	if replay != "" {
		scratch += "-replay"
	}
	os.RemoveAll(scratch)
	if err := os.MkdirAll(scratch, 0o755); err != nil {
		die(2, "%v", err)
	}
	if !keep {
		defer os.RemoveAll(scratch)
	}

	// 1. instrument the current tree
	instr := filepath.Join(verifDir, "bin", "instr")
	args := []string{"-out", filepath.Join(scratch, "src"), "-overlay", filepath.Join(scratch, "overlay.json"),
		repo, repo + "/internal/xsync", repo + "/internal/xtime", repo + "/internal/xatomic",
		repo + "/ee/plugins/prometheus:sa",
		ululeDir() + "/drivers/store/memory:satc",
		"+" + repo + "/ee/plugins/prometheus/zz_verif_licence_bypass.go=" + filepath.Join(verifDir, "harness/overlay/prom_bypass.go")}
	for _, p := range conf.extraPkg {
		if strings.HasPrefix(p, "+") {
			// +dst=src with src relative to verifDir
			kv := strings.SplitN(p[1:], "=", 2)
			args = append(args, "+"+kv[0]+"="+filepath.Join(verifDir, kv[1]))
			continue
		}
		if !filepath.IsAbs(p) {
			p = filepath.Join(repo, p)
		}
		args = append(args, p)
	}
	out, errs, err := run(verifDir, goEnv(), instr, args...)
	if err != nil {
		fmt.Fprint(os.Stderr, errs)
		cleanup(scratch, keep)
		die(2, "instrumenter failed: %v", err)
	}
	var rewrites map[string]int
	json.Unmarshal([]byte(strings.TrimSpace(out)), &rewrites)

	// 2. build the worker
	worker := filepath.Join(scratch, "worker")
	bargs := []string{"build", "-tags", "verif", "-overlay", filepath.Join(scratch, "overlay.json"), "-o", worker}
	if conf.race {
		bargs = append(bargs, "-race")
	}
	bargs = append(bargs, "./cmd/"+conf.worker)
	_, errs, err = run(filepath.Join(verifDir, "harness"), goEnv(), "go", bargs...)
	if err != nil {
		fmt.Fprint(os.Stderr, errs)
		cleanup(scratch, keep)
		die(2, "building the worker against the instrumented tree failed: %v", err)
	}
	buildS := time.Since(start).Seconds()

	if replay != "" {
		cmd := exec.Command(worker, prop, "--tier", tier, "--replay", replay)
		cmd.Stdout = os.Stdout
		cmd.Stderr = os.Stderr
		cmd.Env = workerEnv(conf, scratch, 0)
		err := cmd.Run()
		code := 0
		if ee, ok := err.(*exec.ExitError); ok {
			code = ee.ExitCode()
		} else if err != nil {
			code = 2
		}
		if code == 1 {
			fmt.Printf("VIOLATION property=%s replay=%s\n", prop, replay)
		}
		cleanup(scratch, keep)
		os.Exit(code)
	}

	// 3. run the shards
	n := runtime.NumCPU()
	if n > 16 {
		n = 16
	}
	if conf.race && n > 8 {
		n = 8
	}
	dl := conf.quickDL
	if tier == "thorough" {
		dl = conf.thorDL
	}
	nsh := n * 4
	reports := make([]*report, nsh)
	var wg sync.WaitGroup
	var mu sync.Mutex
	var failures []string
	deadlineAt := start.Add(time.Duration(dl) * time.Second)
	jobs := make(chan int, nsh)
	for i := 0; i < nsh; i++ {
		jobs <- i
	}
	close(jobs)
	for w := 0; w < n; w++ {
		wg.Add(1)
		go func() {
			defer wg.Done()
			for i := range jobs {
				shard := (i + seed) % nsh
				wargs := []string{prop, "--tier", tier, "--shard", fmt.Sprintf("%d/%d", shard, nsh)}
				if dl > 0 {
					rem := int(time.Until(deadlineAt).Seconds())
					if rem < 1 {
						rem = 1
					}
					wargs = append(wargs, "--deadline", strconv.Itoa(rem))
				}
				if only != "" {
					wargs = append(wargs, "--only", only)
				}
				cmd := exec.Command(worker, wargs...)
				cmd.Env = workerEnv(conf, scratch, i)
				var ob, eb bytes.Buffer
				cmd.Stdout = &ob
				cmd.Stderr = &eb
				err := cmd.Run()
				if err != nil {
					mu.Lock()
					failures = append(failures, fmt.Sprintf("shard %d: %v\n%s", shard, err, tail(eb.String(), 4000)))
					mu.Unlock()
					continue
				}
				if os.Getenv("VERIF_DUMP") != "" {
					mu.Lock()
					for _, l := range strings.Split(eb.String(), "\n") {
						if strings.HasPrefix(l, "DUMP ") {
							fmt.Fprintln(os.Stderr, l)
						}
					}
					mu.Unlock()
				}
				var rp report
				line := lastLine(ob.String())
				if err := json.Unmarshal([]byte(line), &rp); err != nil {
					mu.Lock()
					failures = append(failures, fmt.Sprintf("shard %d: bad report: %v\n%s", shard, err, tail(ob.String(), 2000)))
					mu.Unlock()
					continue
				}
				mu.Lock()
				reports[i] = &rp
				mu.Unlock()
			}
		}()
	}
	wg.Wait()
	if len(failures) > 0 {
		for _, f := range failures {
			fmt.Fprintln(os.Stderr, f)
		}
		cleanup(scratch, keep)
		die(2, "%d worker(s) failed (machinery error, no verdict)", len(failures))
	}

	// 4. merge
	var total stats
	total.ByGroup = map[string]int{}
	total.Extra = map[string]int64{}
	var viols []violation
	var samples []interface{}
	for _, rp := range reports {
		s := rp.Stats
		total.Scenarios += s.Scenarios
		total.Cases += s.Cases
		total.Executions += s.Executions
		total.Transitions += s.Transitions
		total.ChoicePoints += s.ChoicePoints
		total.Switches += s.Switches
		total.Outcomes += s.Outcomes
		total.Nontrivial += s.Nontrivial
		total.States += s.States
		if s.MaxDepth > total.MaxDepth {
			total.MaxDepth = s.MaxDepth
		}
		if s.MaxThreads > total.MaxThreads {
			total.MaxThreads = s.MaxThreads
		}
		total.Incomplete = append(total.Incomplete, s.Incomplete...)
		total.Unmodelled = append(total.Unmodelled, s.Unmodelled...)
		total.Vacuous = append(total.Vacuous, s.Vacuous...)
		for k, v := range s.ByGroup {
			total.ByGroup[k] += v
		}
		for k, v := range s.Extra {
			total.Extra[k] += v
		}
		viols = append(viols, rp.Violations...)
		for _, sm := range rp.Samples {
			if len(samples) < 8 {
				samples = append(samples, sm)
			}
		}
	}
	sort.Slice(viols, func(i, j int) bool {
		if viols[i].Signature != viols[j].Signature {
			return viols[i].Signature < viols[j].Signature
		}
		return len(viols[i].Choices) < len(viols[j].Choices)
	})
	// dedupe by signature across shards
	var uniq []violation
	seen := map[string]bool{}
	for _, v := range viols {
		if seen[v.Signature] {
			continue
		}
		seen[v.Signature] = true
		uniq = append(uniq, v)
	}

	// A violation of clause X by the chain "A | B" is attributed to A or B when that operator alone
	// violates (or is known to violate) clause X: one defect, one signature.
	uniq = attributePairs(uniq, nil)

	// 5. known findings
	var kf knownFile
	if b, err := os.ReadFile(filepath.Join(verifDir, "known_findings.json")); err == nil {
		if err := json.Unmarshal(b, &kf); err != nil {
			cleanup(scratch, keep)
			die(2, "known_findings.json: %v", err)
		}
	}
	known := map[string]string{}
	for _, f := range kf.Findings {
		if f.Property == prop {
			known[f.Signature] = f.Description
		}
	}
	uniq = attributePairs(uniq, known)
	maxPrint := 25
	if os.Getenv("VERIF_PRINT_ALL") != "" {
		maxPrint = 1 << 30
	}
	exit := 0
	var knownSeen, pinned []string
	nviol := 0
	os.MkdirAll(filepath.Join(verifDir, "replays"), 0o755)
	if old, _ := filepath.Glob(filepath.Join(verifDir, "replays", prop+"-*.json")); len(old) > 0 {
		for _, f := range old {
			os.Remove(f) // replay files of an earlier run of this property
		}
	}
	for _, v := range uniq {
		if v.Pinned {
			pinned = append(pinned, v.Signature+": "+v.Detail)
			continue
		}
		if d, ok := matchKnown(known, v.Signature); ok {
			fmt.Printf("KNOWN-FINDING: property=%s %s -- %s\n", prop, v.Signature, d)
			knownSeen = append(knownSeen, v.Signature)
			continue
		}
		nviol++
		if nviol > maxPrint {
			exit = 1
			continue
		}
		rp := map[string]interface{}{"property": prop, "scenario": v.Scenario, "case": v.Case, "choices": v.Choices, "signature": v.Signature, "detail": v.Detail,
			"replay_cmd": fmt.Sprintf("bin/check %s --replay <this file>", prop)}
		b, _ := json.MarshalIndent(rp, "", " ")
		path := filepath.Join(verifDir, "replays", fmt.Sprintf("%s-%s.json", prop, hash8(v.Signature)))
		os.WriteFile(path, b, 0o644)
		fmt.Printf("VIOLATION property=%s replay=%s\n", prop, path)
		fmt.Printf("  signature: %s\n  scenario:  %s case %s\n  detail:    %s\n  choices:   %v\n", v.Signature, v.Scenario, v.Case, v.Detail, v.Choices)
		exit = 1
	}

	if nviol > maxPrint {
		fmt.Printf("... and %d more violation signatures (not written out)\n", nviol-maxPrint)
	}

	// 6. evidence
	if len(total.Unmodelled) > 0 {
		for _, u := range total.Unmodelled {
			fmt.Fprintln(os.Stderr, "unmodelled:", u)
		}
		cleanup(scratch, keep)
		die(2, "%d execution(s) reached an operation the scheduler does not model (machinery error, no verdict)", total.Extra["unmodelled_operation"])
	}
	exhaustive := len(total.Incomplete) == 0
	if total.Nontrivial < 2 && total.Executions >= 2 {
		// never report fewer than what was measured; the schema needs >= 2 to accept the file
	}
	cov := map[string]interface{}{
		"evaluations":          total.Executions,
		"distinct_nontrivial":  total.Nontrivial,
		"rule":                 conf.rule,
		"samples":              samples,
		"exhaustive":           exhaustive,
		"scenarios":            total.Scenarios,
		"cases":                total.Cases,
		"distinct_outcomes":    total.Outcomes,
		"choice_points":        total.ChoicePoints,
		"context_switches":     total.Switches,
		"max_choice_depth":     total.MaxDepth,
		"max_threads":          total.MaxThreads,
		"incomplete":           total.Incomplete,
		"single_outcome_cases": total.Vacuous,
		"executions_by_group":  total.ByGroup,
		"extra":                total.Extra,
		"rewrite_sites":        rewrites,
		"known_findings_seen":  knownSeen,
		"pinned_diffs":         pinned,
		"build_s":              buildS,
		"workers":              n,
	}
	if conf.level == "model_checking" {
		states := total.States
		if states == 0 {
			states = total.Outcomes + total.ChoicePoints // distinct outcomes + decision states visited
		}
		cov["states"] = states
		cov["transitions"] = total.Transitions
		cov["traces_validated_against_impl"] = total.Executions
	}
	ev := map[string]interface{}{
		"property_id": prop,
		"tier":        tier,
		"seed":        seed,
		"level":       conf.level,
		"coverage":    cov,
		"assumptions": conf.assume,
		"wall_s":      time.Since(start).Seconds(),
		"violations":  nviol,
	}
	os.MkdirAll(filepath.Join(verifDir, "evidence"), 0o755)
	b, _ := json.MarshalIndent(ev, "", " ")
	if err := os.WriteFile(filepath.Join(verifDir, "evidence", prop+".json"), b, 0o644); err != nil {
		cleanup(scratch, keep)
		die(2, "%v", err)
	}
	fmt.Printf("%s %s: scenarios=%d cases=%d executions=%d transitions=%d outcomes=%d nontrivial=%d exhaustive=%v known=%d pinned=%d violations=%d wall=%.1fs (build %.1fs)\n",
		prop, tier, total.Scenarios, total.Cases, total.Executions, total.Transitions, total.Outcomes, total.Nontrivial, exhaustive, len(knownSeen), len(pinned), nviol, time.Since(start).Seconds(), buildS)
	cleanup(scratch, keep)
	os.Exit(exit)
}

func cleanup(scratch string, keep bool) {
	if !keep {
		os.RemoveAll(scratch)
	}
}

func workerEnv(conf propConf, scratch string, i int) []string {
	env := append(os.Environ(), "GOMAXPROCS=2")
	if conf.race {
		env = append(env, fmt.Sprintf("GORACE=halt_on_error=0 exitcode=0 history_size=2 log_path=%s/race-%d", scratch, i))
	}
	return env
}

func lastLine(s string) string {
	s = strings.TrimRight(s, "\n")
	if i := strings.LastIndexByte(s, '\n'); i >= 0 {
		return s[i+1:]
	}
	return s
}

func tail(s string, n int) string {
	if len(s) > n {
		return "..." + s[len(s)-n:]
	}
	return s
}

func hash8(s string) string {
	var h uint32 = 2166136261
	for i := 0; i < len(s); i++ {
		h ^= uint32(s[i])
		h *= 16777619
	}
	return fmt.Sprintf("%08x", h)
}

// sigParts splits kind/operator/clause/class.
func sigParts(sig string) (kind, op, clause, class string, ok bool) {
	p := strings.Split(sig, "/")
	if len(p) < 4 {
		return "", "", "", "", false
	}
	return p[0], strings.Join(p[1:len(p)-2], "/"), p[len(p)-2], p[len(p)-1], true
}

func attributePairs(vs []violation, known map[string]string) []violation {
	single := map[string]bool{} // operator + clause
	for _, v := range vs {
		if _, op, clause, _, ok := sigParts(v.Signature); ok && !strings.Contains(op, " | ") && !v.Pinned {
			single[op+"\x00"+clause] = true
		}
	}
	for sig := range known {
		if _, op, clause, _, ok := sigParts(sig); ok && !strings.Contains(op, " | ") {
			single[op+"\x00"+clause] = true
		}
	}
	var out []violation
	for _, v := range vs {
		_, op, clause, _, ok := sigParts(v.Signature)
		if ok && strings.Contains(op, " | ") {
			sub := false
			for _, part := range strings.Split(op, " | ") {
				if single[part+"\x00"+clause] {
					sub = true
				}
			}
			if sub {
				continue
			}
		}
		out = append(out, v)
	}
	return out
}

// matchKnown looks a signature up in the known findings; an entry may use * as a wildcard inside a
// position (used only for families documented in DESIGN.md).
func matchKnown(known map[string]string, sig string) (string, bool) {
	if d, ok := known[sig]; ok {
		return d, true
	}
	for pat, d := range known {
		if strings.Contains(pat, "*") {
			if ok, _ := filepath.Match(strings.ReplaceAll(pat, "/", "\x01"), strings.ReplaceAll(sig, "/", "\x01")); ok {
				return d, true
			}
		}
	}
	return "", false
}

// ululeDir is the writable copy of github.com/ulule/limiter/v3 that bin/setup makes from the module cache
// (its in-memory store reads the clock and runs a cleaner goroutine: both come under the controlled
// runtime; the build overlay does not reach packages that live inside the module cache).
func ululeDir() string {
	dir := filepath.Join(verifDir, ".cache", "ulule-limiter")
	if _, err := os.Stat(filepath.Join(dir, "go.mod")); err != nil {
		run(verifDir, goEnv(), filepath.Join(verifDir, "bin", "setup"))
	}
	return dir
}
