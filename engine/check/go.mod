module verif.local/check

go 1.18
