module verif.local/instr

go 1.18
