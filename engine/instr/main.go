// Command instr rewrites Go packages so that they run under the controlled runtime verif.local/vrt.
//
// It reads the current working tree of the packages it is given, rewrites every non-test file and
// emits a `go build -overlay` map; the original tree is never modified. Rewrites (all syntactic):
//
//	import "sync"            -> sync "verif.local/vrt/vsync"
//	import "sync/atomic"     -> atomic "verif.local/vrt/vatomic"
//	import "time"            -> time "verif.local/vrt/vtime"          (only for packages flagged t)
//	runtime.Gosched()        -> vrt.Spin()
//	context.WithTimeout/WithDeadline -> vctx.*
//	go f(x)                  -> vrt.Go(func(){ f(x) }) with arguments evaluated first
//	ch <- v, <-ch, close(ch), for range ch -> vrt.Send/Recv/Recv2/Close
//	select                   -> switch vrt.Select(...) { case i: vrt.RecvNow/SendNow ... }
//
// A construct it cannot translate is a hard error (exit 2), never left uncontrolled.
package main

import (
	"bytes"
	"encoding/json"
	"flag"
	"fmt"
	"go/ast"
	"go/format"
	"go/parser"
	"go/token"
	"os"
	"path/filepath"
	"sort"
	"strings"
)

type counts struct {
	Files, Sync, Atomic, Time, Go, Send, Recv, Close, Range, Select, Gosched, Ctx int
}

var total counts

type rewriter struct {
	fset      *token.FileSet
	file      *ast.File
	path      string
	flags     string
	chanNames map[string]bool
	needVrt   bool
	needVctx  bool
	tmp       int
	gosched   int
	errs      []string
}

func (r *rewriter) failf(pos token.Pos, f string, a ...interface{}) {
	r.errs = append(r.errs, fmt.Sprintf("%s: %s", r.fset.Position(pos), fmt.Sprintf(f, a...)))
}

func (r *rewriter) has(c byte) bool { return strings.IndexByte(r.flags, c) >= 0 }

func (r *rewriter) fresh(p string) *ast.Ident {
	r.tmp++
	return ast.NewIdent(fmt.Sprintf("_v%s%d", p, r.tmp))
}

func vrtCall(fn string, args ...ast.Expr) *ast.CallExpr {
	return &ast.CallExpr{Fun: &ast.SelectorExpr{X: ast.NewIdent("vrt"), Sel: ast.NewIdent(fn)}, Args: args}
}

func isChanType(e ast.Expr) bool {
	switch t := e.(type) {
	case *ast.ChanType:
		return true
	case *ast.ParenExpr:
		return isChanType(t.X)
	}
	return false
}

func isMakeChan(e ast.Expr) bool {
	c, ok := e.(*ast.CallExpr)
	if !ok || len(c.Args) == 0 {
		return false
	}
	id, ok := c.Fun.(*ast.Ident)
	return ok && id.Name == "make" && isChanType(c.Args[0])
}

// collectChanNames records identifiers (variables, parameters, struct fields) that are syntactically
// known to be channels, to recognise `for range ch`.
func collectChanNames(f *ast.File, m map[string]bool) {
	ast.Inspect(f, func(n ast.Node) bool {
		switch s := n.(type) {
		case *ast.AssignStmt:
			if len(s.Lhs) == len(s.Rhs) {
				for i, rhs := range s.Rhs {
					if isMakeChan(rhs) {
						if id, ok := s.Lhs[i].(*ast.Ident); ok {
							m[id.Name] = true
						}
					}
				}
			}
		case *ast.ValueSpec:
			if s.Type != nil && isChanType(s.Type) {
				for _, id := range s.Names {
					m[id.Name] = true
				}
			}
			for i, v := range s.Values {
				if isMakeChan(v) && i < len(s.Names) {
					m[s.Names[i].Name] = true
				}
			}
		case *ast.Field:
			if s.Type != nil && isChanType(s.Type) {
				for _, id := range s.Names {
					m[id.Name] = true
				}
			}
		}
		return true
	})
}

func (r *rewriter) isChanExpr(e ast.Expr) bool {
	switch x := e.(type) {
	case *ast.Ident:
		return r.chanNames[x.Name]
	case *ast.SelectorExpr:
		return r.chanNames[x.Sel.Name] || x.Sel.Name == "C"
	case *ast.ParenExpr:
		return r.isChanExpr(x.X)
	case *ast.CallExpr:
		if s, ok := x.Fun.(*ast.SelectorExpr); ok && s.Sel.Name == "Done" {
			return true
		}
	}
	return false
}

// rewriteStmtList rewrites a statement list in place (statements may expand).
func (r *rewriter) stmts(list []ast.Stmt) []ast.Stmt {
	out := make([]ast.Stmt, 0, len(list))
	for _, s := range list {
		out = append(out, r.stmt(s))
	}
	return out
}

func (r *rewriter) block(b *ast.BlockStmt) {
	if b != nil {
		b.List = r.stmts(b.List)
	}
}

// stmt rewrites one statement and returns its replacement.
func (r *rewriter) stmt(s ast.Stmt) ast.Stmt {
	switch n := s.(type) {
	case nil:
		return nil
	case *ast.BlockStmt:
		r.block(n)
		return n
	case *ast.GoStmt:
		return r.goStmt(n)
	case *ast.SendStmt:
		total.Send++
		r.needVrt = true
		return &ast.ExprStmt{X: vrtCall("Send", r.expr(n.Chan), r.expr(n.Value))}
	case *ast.SelectStmt:
		return r.selectStmt(n)
	case *ast.LabeledStmt:
		if _, ok := n.Stmt.(*ast.SelectStmt); ok {
			r.failf(n.Pos(), "labelled select is not supported by the instrumenter")
		}
		n.Stmt = r.stmt(n.Stmt)
		return n
	case *ast.RangeStmt:
		n.X = r.expr(n.X)
		r.block(n.Body)
		if r.isChanExpr(n.X) {
			return r.rangeChan(n)
		}
		return n
	case *ast.ExprStmt:
		n.X = r.expr(n.X)
		return n
	case *ast.AssignStmt:
		// v, ok := <-ch
		if len(n.Lhs) == 2 && len(n.Rhs) == 1 {
			if u, ok := unparen(n.Rhs[0]).(*ast.UnaryExpr); ok && u.Op == token.ARROW {
				total.Recv++
				r.needVrt = true
				n.Rhs[0] = vrtCall("Recv2", r.expr(u.X))
				for i := range n.Lhs {
					n.Lhs[i] = r.expr(n.Lhs[i])
				}
				return n
			}
		}
		for i := range n.Lhs {
			n.Lhs[i] = r.expr(n.Lhs[i])
		}
		for i := range n.Rhs {
			n.Rhs[i] = r.expr(n.Rhs[i])
		}
		return n
	case *ast.DeclStmt:
		if gd, ok := n.Decl.(*ast.GenDecl); ok {
			for _, sp := range gd.Specs {
				if vs, ok := sp.(*ast.ValueSpec); ok {
					if len(vs.Names) == 2 && len(vs.Values) == 1 {
						if u, ok := unparen(vs.Values[0]).(*ast.UnaryExpr); ok && u.Op == token.ARROW {
							total.Recv++
							r.needVrt = true
							vs.Values[0] = vrtCall("Recv2", r.expr(u.X))
							continue
						}
					}
					for i := range vs.Values {
						vs.Values[i] = r.expr(vs.Values[i])
					}
				}
			}
		}
		return n
	case *ast.IfStmt:
		n.Init = r.stmt(n.Init)
		n.Cond = r.expr(n.Cond)
		r.block(n.Body)
		n.Else = r.stmt(n.Else)
		return n
	case *ast.ForStmt:
		n.Init = r.stmt(n.Init)
		if n.Cond != nil {
			n.Cond = r.expr(n.Cond)
		}
		n.Post = r.stmt(n.Post)
		r.block(n.Body)
		return n
	case *ast.SwitchStmt:
		n.Init = r.stmt(n.Init)
		if n.Tag != nil {
			n.Tag = r.expr(n.Tag)
		}
		for _, c := range n.Body.List {
			cc := c.(*ast.CaseClause)
			for i := range cc.List {
				cc.List[i] = r.expr(cc.List[i])
			}
			cc.Body = r.stmts(cc.Body)
		}
		return n
	case *ast.TypeSwitchStmt:
		n.Init = r.stmt(n.Init)
		n.Assign = r.stmt(n.Assign)
		for _, c := range n.Body.List {
			cc := c.(*ast.CaseClause)
			cc.Body = r.stmts(cc.Body)
		}
		return n
	case *ast.ReturnStmt:
		for i := range n.Results {
			n.Results[i] = r.expr(n.Results[i])
		}
		return n
	case *ast.DeferStmt:
		n.Call = r.expr(n.Call).(*ast.CallExpr)
		return n
	case *ast.IncDecStmt:
		n.X = r.expr(n.X)
		return n
	case *ast.CommClause:
		r.failf(n.Pos(), "comm clause outside select")
		return n
	}
	return s
}

func unparen(e ast.Expr) ast.Expr {
	for {
		p, ok := e.(*ast.ParenExpr)
		if !ok {
			return e
		}
		e = p.X
	}
}

// expr rewrites an expression (receive operations, close(), runtime.Gosched, context.WithTimeout,
// function literals' bodies).
func (r *rewriter) expr(e ast.Expr) ast.Expr {
	switch n := e.(type) {
	case nil:
		return nil
	case *ast.UnaryExpr:
		n.X = r.expr(n.X)
		if n.Op == token.ARROW {
			total.Recv++
			r.needVrt = true
			return vrtCall("Recv", n.X)
		}
		return n
	case *ast.CallExpr:
		n.Fun = r.expr(n.Fun)
		for i := range n.Args {
			n.Args[i] = r.expr(n.Args[i])
		}
		if id, ok := n.Fun.(*ast.Ident); ok && id.Name == "close" && len(n.Args) == 1 && r.has('c') {
			total.Close++
			r.needVrt = true
			return vrtCall("Close", n.Args[0])
		}
		if sel, ok := n.Fun.(*ast.SelectorExpr); ok {
			if x, ok := sel.X.(*ast.Ident); ok {
				if x.Name == "runtime" && sel.Sel.Name == "SetFinalizer" {
					// finalizers run on the garbage collector's goroutine, outside the scheduler, at a time
					// nothing controls: the finalizer is dropped (leftover threads are torn down per execution)
					total.Gosched++
					r.gosched++
					r.needVrt = true
					return vrtCall("SetFinalizer", n.Args...)
				}
				if x.Name == "runtime" && sel.Sel.Name == "Gosched" && len(n.Args) == 0 {
					total.Gosched++
					r.gosched++
					r.needVrt = true
					return vrtCall("Spin")
				}
				if x.Name == "context" && (sel.Sel.Name == "WithTimeout" || sel.Sel.Name == "WithDeadline") && r.has('x') {
					total.Ctx++
					r.needVctx = true
					return &ast.CallExpr{Fun: &ast.SelectorExpr{X: ast.NewIdent("vctx"), Sel: ast.NewIdent(sel.Sel.Name)}, Args: n.Args}
				}
			}
		}
		return n
	case *ast.FuncLit:
		r.block(n.Body)
		return n
	case *ast.ParenExpr:
		n.X = r.expr(n.X)
		return n
	case *ast.BinaryExpr:
		n.X = r.expr(n.X)
		n.Y = r.expr(n.Y)
		return n
	case *ast.SelectorExpr:
		n.X = r.expr(n.X)
		return n
	case *ast.IndexExpr:
		n.X = r.expr(n.X)
		n.Index = r.expr(n.Index)
		return n
	case *ast.SliceExpr:
		n.X = r.expr(n.X)
		n.Low, n.High, n.Max = r.expr(n.Low), r.expr(n.High), r.expr(n.Max)
		return n
	case *ast.StarExpr:
		n.X = r.expr(n.X)
		return n
	case *ast.TypeAssertExpr:
		n.X = r.expr(n.X)
		return n
	case *ast.KeyValueExpr:
		n.Key = r.expr(n.Key)
		n.Value = r.expr(n.Value)
		return n
	case *ast.CompositeLit:
		for i := range n.Elts {
			n.Elts[i] = r.expr(n.Elts[i])
		}
		return n
	}
	return e
}

func (r *rewriter) goStmt(g *ast.GoStmt) ast.Stmt {
	total.Go++
	r.needVrt = true
	call := g.Call
	call.Fun = r.expr(call.Fun)
	var pre []ast.Stmt
	for i := range call.Args {
		a := r.expr(call.Args[i])
		tmp := r.fresh("a")
		pre = append(pre, &ast.AssignStmt{Lhs: []ast.Expr{tmp}, Tok: token.DEFINE, Rhs: []ast.Expr{a}})
		call.Args[i] = ast.NewIdent(tmp.Name)
	}
	var fn ast.Expr
	if fl, ok := call.Fun.(*ast.FuncLit); ok && len(call.Args) == 0 && fl.Type.Results == nil {
		fn = fl
	} else {
		fn = &ast.FuncLit{
			Type: &ast.FuncType{Params: &ast.FieldList{}},
			Body: &ast.BlockStmt{List: []ast.Stmt{&ast.ExprStmt{X: call}}},
		}
	}
	goCall := &ast.ExprStmt{X: vrtCall("Go", fn)}
	if len(pre) == 0 {
		return goCall
	}
	return &ast.BlockStmt{List: append(pre, goCall)}
}

func (r *rewriter) rangeChan(n *ast.RangeStmt) ast.Stmt {
	total.Range++
	r.needVrt = true
	if n.Value != nil {
		r.failf(n.Pos(), "range over channel with two variables")
	}
	ok := r.fresh("ok")
	var recv ast.Stmt
	key := n.Key
	tok := n.Tok
	if key == nil {
		key = ast.NewIdent("_")
		tok = token.DEFINE
	}
	recv = &ast.AssignStmt{Lhs: []ast.Expr{key, ok}, Tok: token.DEFINE, Rhs: []ast.Expr{vrtCall("Recv2", n.X)}}
	if tok == token.ASSIGN {
		// for v = range ch : keep assignment semantics
		tmp := r.fresh("r")
		recv = &ast.AssignStmt{Lhs: []ast.Expr{tmp, ok}, Tok: token.DEFINE, Rhs: []ast.Expr{vrtCall("Recv2", n.X)}}
		n.Body.List = append([]ast.Stmt{&ast.AssignStmt{Lhs: []ast.Expr{key}, Tok: token.ASSIGN, Rhs: []ast.Expr{ast.NewIdent(tmp.Name)}}}, n.Body.List...)
	}
	brk := &ast.IfStmt{Cond: &ast.UnaryExpr{Op: token.NOT, X: ast.NewIdent(ok.Name)}, Body: &ast.BlockStmt{List: []ast.Stmt{&ast.BranchStmt{Tok: token.BREAK}}}}
	body := append([]ast.Stmt{recv, brk}, n.Body.List...)
	return &ast.ForStmt{Body: &ast.BlockStmt{List: body}}
}

func (r *rewriter) selectStmt(s *ast.SelectStmt) ast.Stmt {
	total.Select++
	r.needVrt = true
	var pre []ast.Stmt
	var cases []ast.Expr
	var clauses []ast.Stmt
	hasDefault := false
	idx := 0
	for _, c := range s.Body.List {
		cc := c.(*ast.CommClause)
		body := r.stmts(cc.Body)
		if cc.Comm == nil {
			hasDefault = true
			clauses = append(clauses, &ast.CaseClause{List: []ast.Expr{&ast.UnaryExpr{Op: token.SUB, X: &ast.BasicLit{Kind: token.INT, Value: "1"}}}, Body: body})
			continue
		}
		chv := r.fresh("c")
		var first ast.Stmt
		switch cm := cc.Comm.(type) {
		case *ast.SendStmt:
			vv := r.fresh("s")
			pre = append(pre,
				&ast.AssignStmt{Lhs: []ast.Expr{chv}, Tok: token.DEFINE, Rhs: []ast.Expr{r.expr(cm.Chan)}},
				&ast.AssignStmt{Lhs: []ast.Expr{vv}, Tok: token.DEFINE, Rhs: []ast.Expr{r.expr(cm.Value)}})
			cases = append(cases, vrtCall("S", ast.NewIdent(chv.Name), ast.NewIdent(vv.Name)))
			first = &ast.ExprStmt{X: vrtCall("SendNow", ast.NewIdent(chv.Name), ast.NewIdent(vv.Name))}
		case *ast.ExprStmt:
			u, ok := unparen(cm.X).(*ast.UnaryExpr)
			if !ok || u.Op != token.ARROW {
				r.failf(cm.Pos(), "unsupported select clause")
				continue
			}
			pre = append(pre, &ast.AssignStmt{Lhs: []ast.Expr{chv}, Tok: token.DEFINE, Rhs: []ast.Expr{r.expr(u.X)}})
			cases = append(cases, vrtCall("R", ast.NewIdent(chv.Name)))
			first = &ast.ExprStmt{X: vrtCall("RecvNow", ast.NewIdent(chv.Name))}
		case *ast.AssignStmt:
			if len(cm.Rhs) != 1 {
				r.failf(cm.Pos(), "unsupported select clause")
				continue
			}
			u, ok := unparen(cm.Rhs[0]).(*ast.UnaryExpr)
			if !ok || u.Op != token.ARROW {
				r.failf(cm.Pos(), "unsupported select clause")
				continue
			}
			pre = append(pre, &ast.AssignStmt{Lhs: []ast.Expr{chv}, Tok: token.DEFINE, Rhs: []ast.Expr{r.expr(u.X)}})
			cases = append(cases, vrtCall("R", ast.NewIdent(chv.Name)))
			fn := "RecvNow"
			if len(cm.Lhs) == 2 {
				fn = "Recv2Now"
			}
			allBlank := true
			for _, l := range cm.Lhs {
				if id, ok := l.(*ast.Ident); !ok || id.Name != "_" {
					allBlank = false
				}
			}
			if allBlank {
				first = &ast.ExprStmt{X: vrtCall("RecvNow", ast.NewIdent(chv.Name))}
			} else {
				first = &ast.AssignStmt{Lhs: cm.Lhs, Tok: cm.Tok, Rhs: []ast.Expr{vrtCall(fn, ast.NewIdent(chv.Name))}}
			}
		default:
			r.failf(cc.Pos(), "unsupported select clause")
			continue
		}
		clauses = append(clauses, &ast.CaseClause{
			List: []ast.Expr{&ast.BasicLit{Kind: token.INT, Value: fmt.Sprint(idx)}},
			Body: append([]ast.Stmt{first}, body...),
		})
		idx++
	}
	def := "false"
	if hasDefault {
		def = "true"
	}
	args := append([]ast.Expr{ast.NewIdent(def)}, cases...)
	sw := &ast.SwitchStmt{Tag: vrtCall("Select", args...), Body: &ast.BlockStmt{List: clauses}}
	return &ast.BlockStmt{List: append(pre, sw)}
}

func (r *rewriter) run() {
	f := r.file
	// keep only comments that precede the package clause (build constraints, licence)
	var keep []*ast.CommentGroup
	for _, cg := range f.Comments {
		if cg.End() < f.Package {
			keep = append(keep, cg)
		}
	}
	f.Comments = keep
	f.Doc = nil

	usesRuntimeOther := false
	usesContextOther := false
	ast.Inspect(f, func(n ast.Node) bool {
		if sel, ok := n.(*ast.SelectorExpr); ok {
			if x, ok := sel.X.(*ast.Ident); ok {
				if x.Name == "runtime" && sel.Sel.Name != "Gosched" && sel.Sel.Name != "SetFinalizer" {
					usesRuntimeOther = true
				}
				if x.Name == "context" && sel.Sel.Name != "WithTimeout" && sel.Sel.Name != "WithDeadline" {
					usesContextOther = true
				}
			}
		}
		return true
	})

	for _, d := range f.Decls {
		switch dd := d.(type) {
		case *ast.FuncDecl:
			if r.has('c') {
				r.block(dd.Body)
			}
		case *ast.GenDecl:
			if !r.has('c') {
				continue
			}
			for _, sp := range dd.Specs {
				if vs, ok := sp.(*ast.ValueSpec); ok {
					for i := range vs.Values {
						vs.Values[i] = r.expr(vs.Values[i])
					}
				}
			}
		}
	}

	// imports
	var specs []ast.Spec
	var imp *ast.GenDecl
	for _, d := range f.Decls {
		if gd, ok := d.(*ast.GenDecl); ok && gd.Tok == token.IMPORT {
			if imp == nil {
				imp = gd
			}
		}
	}
	rename := func(is *ast.ImportSpec, name, path string) {
		if is.Name == nil {
			is.Name = ast.NewIdent(name)
		}
		is.Path.Value = `"` + path + `"`
	}
	for _, d := range f.Decls {
		gd, ok := d.(*ast.GenDecl)
		if !ok || gd.Tok != token.IMPORT {
			continue
		}
		specs = specs[:0]
		for _, sp := range gd.Specs {
			is := sp.(*ast.ImportSpec)
			p := strings.Trim(is.Path.Value, `"`)
			switch {
			case p == "sync" && r.has('s'):
				total.Sync++
				rename(is, "sync", "verif.local/vrt/vsync")
			case p == "sync/atomic" && r.has('a'):
				total.Atomic++
				rename(is, "atomic", "verif.local/vrt/vatomic")
			case p == "time" && r.has('t'):
				total.Time++
				rename(is, "time", "verif.local/vrt/vtime")
			case p == "runtime" && r.gosched > 0 && !usesRuntimeOther && is.Name == nil:
				continue // no longer used
			case p == "context" && r.needVctx && !usesContextOther && is.Name == nil:
				continue
			}
			specs = append(specs, is)
		}
		gd.Specs = append([]ast.Spec{}, specs...)
	}
	add := func(path string) {
		is := &ast.ImportSpec{Path: &ast.BasicLit{Kind: token.STRING, Value: `"` + path + `"`}}
		if imp == nil {
			imp = &ast.GenDecl{Tok: token.IMPORT, Lparen: 1, Rparen: 1}
			f.Decls = append([]ast.Decl{imp}, f.Decls...)
		}
		imp.Lparen = 1
		imp.Specs = append(imp.Specs, is)
	}
	if r.needVrt {
		add("verif.local/vrt")
	}
	if r.needVctx {
		add("verif.local/vrt/vctx")
	}
	// drop empty import decls
	var decls []ast.Decl
	for _, d := range f.Decls {
		if gd, ok := d.(*ast.GenDecl); ok && gd.Tok == token.IMPORT && len(gd.Specs) == 0 {
			continue
		}
		decls = append(decls, d)
	}
	f.Decls = decls
}

type overlay struct {
	Replace map[string]string
}

func main() {
	out := flag.String("out", "", "directory for rewritten files")
	ovPath := flag.String("overlay", "", "overlay JSON to write")
	flag.Usage = func() {
		fmt.Fprintln(os.Stderr, "usage: instr -out DIR -overlay FILE [pkgdir[:flags]|+dst=src]...\n  flags: s sync, a atomic, t time, c channels/go/select/close, x context timeouts (default: satcx)")
	}
	flag.Parse()
	if *out == "" || *ovPath == "" {
		flag.Usage()
		os.Exit(2)
	}
	ov := overlay{Replace: map[string]string{}}
	var allErrs []string
	for pi, arg := range flag.Args() {
		if strings.HasPrefix(arg, "+") {
			kv := strings.SplitN(arg[1:], "=", 2)
			if len(kv) != 2 {
				fmt.Fprintln(os.Stderr, "instr: bad add spec", arg)
				os.Exit(2)
			}
			ov.Replace[kv[0]] = kv[1]
			continue
		}
		dir, flags := arg, "satcx"
		if i := strings.LastIndexByte(arg, ':'); i > 0 {
			dir, flags = arg[:i], arg[i+1:]
		}
		ents, err := os.ReadDir(dir)
		if err != nil {
			fmt.Fprintln(os.Stderr, "instr:", err)
			os.Exit(2)
		}
		fset := token.NewFileSet()
		type pf struct {
			path string
			f    *ast.File
		}
		var files []pf
		chanNames := map[string]bool{}
		for _, e := range ents {
			name := e.Name()
			if e.IsDir() || !strings.HasSuffix(name, ".go") || strings.HasSuffix(name, "_test.go") {
				continue
			}
			p := filepath.Join(dir, name)
			f, err := parser.ParseFile(fset, p, nil, parser.ParseComments)
			if err != nil {
				fmt.Fprintln(os.Stderr, "instr:", err)
				os.Exit(2)
			}
			collectChanNames(f, chanNames)
			files = append(files, pf{p, f})
		}
		sub := filepath.Join(*out, fmt.Sprintf("p%d", pi))
		if err := os.MkdirAll(sub, 0o755); err != nil {
			fmt.Fprintln(os.Stderr, "instr:", err)
			os.Exit(2)
		}
		for _, file := range files {
			before := total
			r := &rewriter{fset: fset, file: file.f, path: file.path, flags: flags, chanNames: chanNames}
			r.run()
			allErrs = append(allErrs, r.errs...)
			if total == before {
				continue // untouched: use the original
			}
			total.Files++
			var buf bytes.Buffer
			if err := format.Node(&buf, token.NewFileSet(), file.f); err != nil {
				fmt.Fprintf(os.Stderr, "instr: printing %s: %v\n", file.path, err)
				os.Exit(2)
			}
			dst := filepath.Join(sub, filepath.Base(file.path))
			if err := os.WriteFile(dst, buf.Bytes(), 0o644); err != nil {
				fmt.Fprintln(os.Stderr, "instr:", err)
				os.Exit(2)
			}
			abs, _ := filepath.Abs(file.path)
			ov.Replace[abs] = dst
		}
	}
	if len(allErrs) > 0 {
		sort.Strings(allErrs)
		for _, e := range allErrs {
			fmt.Fprintln(os.Stderr, "instr: cannot translate:", e)
		}
		os.Exit(2)
	}
	b, _ := json.MarshalIndent(ov, "", " ")
	if err := os.WriteFile(*ovPath, b, 0o644); err != nil {
		fmt.Fprintln(os.Stderr, "instr:", err)
		os.Exit(2)
	}
	cb, _ := json.Marshal(total)
	fmt.Println(string(cb))
}
