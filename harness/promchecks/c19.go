// Package promchecks holds the driver of C19 (Prometheus instrumentation).
package promchecks

import (
	"context"
	"fmt"
	"strings"

	"github.com/prometheus/client_golang/prometheus"
	dto "github.com/prometheus/client_model/go"
	"github.com/samber/ro"
	roprometheus "github.com/samber/ro/ee/plugins/prometheus"
	"verif.local/harness/checks"
	"verif.local/harness/fw"
	"verif.local/harness/h"
	"verif.local/vrt"
)

// C19 - Prometheus instrumentation is transparent and its counters are exact.

type intOp = func(ro.Observable[int]) ro.Observable[int]

var (
	opInc     intOp = ro.Map(func(v int) int { return v + 1 })
	opNotMul3 intOp = ro.Filter(func(v int) bool { return v%3 != 0 })
	opSum     intOp = ro.Scan(func(a, v int) int { return a + v }, 0)
	opSkip1   intOp = ro.Skip[int](1)
	opTap     intOp = ro.TapOnNext(func(int) {})
	opDouble  intOp = ro.FlatMap(func(v int) ro.Observable[int] { return ro.Just(v, v) })
	// operators that emit values of their own (only in the extra "inject-*" call sites)
	opEndWith intOp = ro.EndWith(99)
	opSumAgg  intOp = ro.Sum[int]()
)

type promPipe struct {
	N      int
	Layout string
	Ops    []intOp
	Names  []string
	Build  func(cfg roprometheus.CollectorConfig, src ro.Observable[int]) (ro.Observable[int], prometheus.Collector)
	Plain  func(src ro.Observable[int]) ro.Observable[int]
}

var promPipes []promPipe

type gathered struct {
	counters map[string]float64 // metric name -> value
	samples  map[string]uint64  // summary name (+operator index) -> sample count
	families int
}

func gather(c prometheus.Collector) (*gathered, error) {
	reg := prometheus.NewPedanticRegistry()
	if err := reg.Register(c); err != nil {
		return nil, err
	}
	mfs, err := reg.Gather()
	if err != nil {
		return nil, err
	}
	g := &gathered{counters: map[string]float64{}, samples: map[string]uint64{}, families: len(mfs)}
	for _, mf := range mfs {
		for _, m := range mf.GetMetric() {
			switch mf.GetType() {
			case dto.MetricType_COUNTER:
				g.counters[mf.GetName()] += m.GetCounter().GetValue()
			case dto.MetricType_SUMMARY:
				key := mf.GetName()
				for _, l := range m.GetLabel() {
					if l.GetName() == "operator_index" {
						key += "#" + l.GetValue()
					}
				}
				g.samples[key] += m.GetSummary().GetSampleCount()
			}
		}
	}
	return g, nil
}

func countN(evs []h.Ev) int {
	n := 0
	for _, e := range evs {
		if e.K == h.N {
			n++
		}
	}
	return n
}

func ctxOutcome(r *h.Rec) string {
	var sb strings.Builder
	for _, en := range r.Log {
		fmt.Fprintf(&sb, "%s[%v %v %v] ", en.Ev.Short(), en.Sub, en.Item, en.Mid)
	}
	return sb.String()
}

func c19Case(p promPipe, word []h.Ev, licence bool, nsubs int) fw.Case {
	nm := fmt.Sprintf("Pipe%d/%s/licence=%v/subs=%d:%s", p.N, p.Layout, licence, nsubs, h.Word(word))
	return fw.Case{Name: nm, Opts: vrt.Options{Horizon: 200000}, Make: func() fw.Instance {
		var viol []fw.Violation
		sig := fmt.Sprintf("prom/Pipe%d.%s", p.N, p.Layout)
		add := func(clause, cls, detail string) {
			for _, v := range viol {
				if strings.Contains(v.Signature, "/"+clause+"/") {
					return
				}
			}
			viol = append(viol, fw.V(sig+"/"+clause+"/"+cls, nm+": "+detail))
		}
		outcome := ""
		body := func() {
			defer func() {
				if r := recover(); r != nil {
					add("panic-escaped", "build-or-subscribe", fmt.Sprint(r))
				}
			}()
			roprometheus.SetLicenseBypassForVerification(licence)
			defer roprometheus.SetLicenseBypassForVerification(false)
			srcI, srcP := h.NewSrc("instrumented"), h.NewSrc("plain")
			obsI, coll := p.Build(roprometheus.CollectorConfig{Namespace: "verif"}, h.Script[int](srcI, h.Unsafe, word))
			obsP := p.Plain(h.Script[int](srcP, h.Unsafe, word))
			ctx := context.WithValue(context.Background(), h.KeySub, "sub")
			for s := 0; s < nsubs; s++ {
				ri, rp := h.NewRec("instrumented"), h.NewRec("plain")
				obsI.SubscribeWithContext(ctx, h.Observer[int](ri))
				obsP.SubscribeWithContext(ctx, h.Observer[int](rp))
				if !h.SameTrace(ri.Events(), rp.Events()) {
					add("transparency-trace", "differs", fmt.Sprintf("subscription %d: instrumented pipeline delivered [%s], plain ro.Pipe%d delivers [%s]", s+1, ri.Trace(), p.N, rp.Trace()))
				}
				if ctxOutcome(ri) != ctxOutcome(rp) {
					add("transparency-context", "differs", fmt.Sprintf("subscription %d: context values seen by the observer differ: %s vs %s", s+1, ctxOutcome(ri), ctxOutcome(rp)))
				}
				outcome = ri.Trace()
			}
			si, ti, li, _ := srcI.Get()
			sp, tp, lp, _ := srcP.Get()
			if si != sp || ti != tp || li != lp {
				add("transparency-source-release", "differs", fmt.Sprintf("source counters (subscribed/released/live): instrumented %d/%d/%d, plain %d/%d/%d", si, ti, li, sp, tp, lp))
			}
			if coll == nil {
				add("collector", "nil", "no collector returned")
				return
			}
			g, err := gather(coll)
			if err != nil {
				add("collector", "gather-failed", err.Error())
				return
			}
			if !licence {
				if g.families != 0 {
					add("licence-off-exports-metrics", "exported", fmt.Sprintf("%d metric families exported without a licence", g.families))
				}
				return
			}
			// expected counts, from the plain pipeline applied operator by operator
			srcVals := countN(h.LegalPrefix(word))
			leaving := make([]int, p.N)
			for j := 1; j <= p.N; j++ {
				o := h.Script[int](h.NewSrc("prefix"), h.Unsafe, word)
				for _, op := range p.Ops[:j] {
					o = op(o)
				}
				rr := h.NewRec("prefix")
				o.Subscribe(h.Observer[int](rr))
				leaving[j-1] = countN(rr.Events())
			}
			expect := func(name string, got, want float64) {
				if got != want {
					cls := "too-high"
					if got < want {
						cls = "too-low"
					}
					add("counter-"+name, cls, fmt.Sprintf("%s = %v, %d subscriptions of a source emitting %d values give %v", name, got, nsubs, srcVals, want))
				}
			}
			expect("subscriptions_total", g.counters["verif_ro_subscriptions_total"], float64(nsubs))
			expect("notification_in_total", g.counters["verif_ro_notification_in_total"], float64(nsubs*srcVals))
			expect("notification_out_total", g.counters["verif_ro_notification_out_total"], float64(nsubs*leaving[p.N-1]))
			expect("notification_lag_samples", float64(g.samples["verif_ro_notification_lag_seconds"]), float64(nsubs*srcVals))
			for j := 0; j < p.N; j++ {
				key := fmt.Sprintf("verif_ro_operator_processing_time_seconds_total#%d", j)
				if got, want := g.samples[key], uint64(nsubs*leaving[j]); got != want {
					cls := "too-high"
					if got < want {
						cls = "too-low"
					}
					add("operator-processing-samples@"+p.Names[j], cls, fmt.Sprintf("operator #%d (%s): %d processing-time observations, %d values left it", j, p.Names[j], got, want))
				}
			}
		}
		return fw.Instance{Body: body, Outcome: func() string { return outcome }, Check: func(r *vrt.Result) []fw.Violation { return viol }}
	}}
}

// c19LicenceHistory: the licence is read when it matters, not when the pipeline value was built. The
// pipeline is built under one licence state and subscribed under a sequence of others; the collector is
// read with the licence active. The counters must describe the subscriptions made while the licence was
// active (what the current code does), or all of them (the property does not say which, so both readings
// are accepted, but the same one for every counter).
func c19LicenceHistory(p promPipe, word []h.Ev, buildOn bool, states []bool) fw.Case {
	nm := fmt.Sprintf("Pipe%d/%s/built-with-licence=%v/subscribed-with=%v:%s", p.N, p.Layout, buildOn, states, h.Word(word))
	return fw.Case{Name: nm, Opts: vrt.Options{Horizon: 200000}, Make: func() fw.Instance {
		var viol []fw.Violation
		sig := fmt.Sprintf("prom/Pipe%d.%s", p.N, p.Layout)
		outcome := ""
		body := func() {
			defer roprometheus.SetLicenseBypassForVerification(false)
			roprometheus.SetLicenseBypassForVerification(buildOn)
			obsI, coll := p.Build(roprometheus.CollectorConfig{Namespace: "verif"}, h.Script[int](h.NewSrc("instrumented"), h.Unsafe, word))
			obsP := p.Plain(h.Script[int](h.NewSrc("plain"), h.Unsafe, word))
			on := 0
			for i, st := range states {
				roprometheus.SetLicenseBypassForVerification(st)
				if st {
					on++
				}
				ri, rp := h.NewRec("instrumented"), h.NewRec("plain")
				obsI.Subscribe(h.Observer[int](ri))
				obsP.Subscribe(h.Observer[int](rp))
				if !h.SameTrace(ri.Events(), rp.Events()) && len(viol) == 0 {
					viol = append(viol, fw.V(sig+"/transparency-trace/differs", fmt.Sprintf("%s: subscription %d delivered [%s], plain pipeline [%s]", nm, i+1, ri.Trace(), rp.Trace())))
				}
				outcome = ri.Trace()
			}
			roprometheus.SetLicenseBypassForVerification(true)
			g, err := gather(coll)
			if err != nil {
				viol = append(viol, fw.V(sig+"/collector/gather-failed", err.Error()))
				return
			}
			srcVals := countN(h.LegalPrefix(word))
			got := [2]float64{g.counters["verif_ro_subscriptions_total"], g.counters["verif_ro_notification_in_total"]}
			okFor := func(n int) bool { return got[0] == float64(n) && got[1] == float64(n*srcVals) }
			if !okFor(on) && !okFor(len(states)) {
				viol = append(viol, fw.V(sig+"/counters-after-licence-change/mismatch", fmt.Sprintf("%s: %d subscriptions (%d with the licence active) of a source emitting %d values; the collector read with the licence active says subscriptions_total=%v notification_in_total=%v", nm, len(states), on, srcVals, got[0], got[1])))
			}
		}
		return fw.Instance{Body: body, Outcome: func() string { return outcome }, Check: func(r *vrt.Result) []fw.Violation { return viol }}
	}}
}

// stand-alone counters
func c19Standalone(word []h.Ev) fw.Case {
	return fw.Case{Name: "standalone:" + h.Word(word), Make: func() fw.Instance {
		var viol []fw.Violation
		body := func() {
			roprometheus.SetLicenseBypassForVerification(true)
			defer roprometheus.SetLicenseBypassForVerification(false)
			cn := prometheus.NewCounter(prometheus.CounterOpts{Name: "n"})
			ce := prometheus.NewCounter(prometheus.CounterOpts{Name: "e"})
			cc := prometheus.NewCounter(prometheus.CounterOpts{Name: "c"})
			cs := prometheus.NewCounter(prometheus.CounterOpts{Name: "s"})
			lag := prometheus.NewSummary(prometheus.SummaryOpts{Name: "lag"})
			src := h.Script[int](h.NewSrc("s"), h.Unsafe, word)
			o := roprometheus.ObserveNextLag[int](lag)(roprometheus.IncCounterOnSubscription[int](cs)(roprometheus.IncCounterOnComplete[int](cc)(roprometheus.IncCounterOnError[int](ce)(roprometheus.IncCounterOnNext[int](cn)(src)))))
			rec := h.NewRec("out")
			for i := 0; i < 2; i++ {
				o.Subscribe(h.Observer[int](rec))
			}
			legal := h.LegalPrefix(word)
			nN, nE, nC := 0, 0, 0
			for _, e := range legal {
				switch e.K {
				case h.N:
					nN++
				case h.E:
					nE++
				case h.C:
					nC++
				}
			}
			val := func(c prometheus.Counter) float64 {
				var m dto.Metric
				c.Write(&m)
				return m.GetCounter().GetValue()
			}
			var lm dto.Metric
			lag.Write(&lm)
			for _, x := range []struct {
				name      string
				got, want float64
			}{{"IncCounterOnNext", val(cn), float64(2 * nN)}, {"IncCounterOnError", val(ce), float64(2 * nE)}, {"IncCounterOnComplete", val(cc), float64(2 * nC)},
				{"IncCounterOnSubscription", val(cs), 2}, {"ObserveNextLag", float64(lm.GetSummary().GetSampleCount()), float64(2 * nN)}} {
				if x.got != x.want {
					viol = append(viol, fw.V("prom/"+x.name+"/counter/mismatch", fmt.Sprintf("source [%s] subscribed twice: %s counted %v, events %v", h.Word(word), x.name, x.got, x.want)))
				}
			}
		}
		return fw.Instance{Body: body, Outcome: func() string { return h.Word(word) }, Check: func(r *vrt.Result) []fw.Violation { return viol }}
	}}
}

// stand-alone operators are transparent too: same trace and same context values on every notification
// (values attached at SubscribeWithContext, per item by the source, and mid-pipeline upstream of the operator).
func c19StandaloneTransparent(word []h.Ev, licence bool) fw.Case {
	return fw.Case{Name: fmt.Sprintf("standalone-transparency/licence=%v:%s", licence, h.Word(word)), Make: func() fw.Instance {
		var viol []fw.Violation
		outcome := ""
		body := func() {
			roprometheus.SetLicenseBypassForVerification(licence)
			defer roprometheus.SetLicenseBypassForVerification(false)
			ops := []struct {
				name string
				op   func(ro.Observable[int]) ro.Observable[int]
			}{
				{"IncCounterOnNext", roprometheus.IncCounterOnNext[int](prometheus.NewCounter(prometheus.CounterOpts{Name: "n"}))},
				{"IncCounterOnError", roprometheus.IncCounterOnError[int](prometheus.NewCounter(prometheus.CounterOpts{Name: "e"}))},
				{"IncCounterOnComplete", roprometheus.IncCounterOnComplete[int](prometheus.NewCounter(prometheus.CounterOpts{Name: "c"}))},
				{"IncCounterOnSubscription", roprometheus.IncCounterOnSubscription[int](prometheus.NewCounter(prometheus.CounterOpts{Name: "s"}))},
				{"ObserveNextLag", roprometheus.ObserveNextLag[int](prometheus.NewSummary(prometheus.SummaryOpts{Name: "lag"}))},
			}
			ctx := context.WithValue(context.Background(), h.KeySub, "sub")
			mid := func(o ro.Observable[int]) ro.Observable[int] {
				return ro.ContextWithValue[int](h.KeyMid, "mid")(o)
			}
			for _, x := range ops {
				ri, rp := h.NewRec("instrumented"), h.NewRec("plain")
				x.op(mid(h.Script[int](h.NewSrc("i"), h.Unsafe, word))).SubscribeWithContext(ctx, h.Observer[int](ri))
				mid(h.Script[int](h.NewSrc("p"), h.Unsafe, word)).SubscribeWithContext(ctx, h.Observer[int](rp))
				outcome = ctxOutcome(ri)
				if !h.SameTrace(ri.Events(), rp.Events()) {
					viol = append(viol, fw.V("prom/"+x.name+"/transparency-trace/differs", fmt.Sprintf("source [%s]: with the operator [%s], without [%s]", h.Word(word), ri.Trace(), rp.Trace())))
				} else if ctxOutcome(ri) != ctxOutcome(rp) {
					viol = append(viol, fw.V("prom/"+x.name+"/transparency-context/differs", fmt.Sprintf("source [%s], licence=%v: context values [subscription item mid-pipeline] per notification: with the operator %s, without %s", h.Word(word), licence, ctxOutcome(ri), ctxOutcome(rp))))
				}
			}
		}
		return fw.Instance{Body: body, Outcome: func() string { return outcome }, Check: func(r *vrt.Result) []fw.Violation { return viol }}
	}}
}

// two concurrent subscriptions of one instrumented pipeline
func c19Concurrent(p promPipe, bound int) fw.Case {
	word := []h.Ev{h.Nx(1), h.Nx(2), h.Co()}
	return fw.Case{Name: fmt.Sprintf("Pipe%d/concurrent", p.N), Bound: bound, Make: func() fw.Instance {
		recs := []*h.Rec{h.NewRec("a"), h.NewRec("b")}
		plain := h.NewRec("plain")
		var coll prometheus.Collector
		body := func() {
			roprometheus.SetLicenseBypassForVerification(true)
			var obs ro.Observable[int]
			obs, coll = p.Build(roprometheus.CollectorConfig{Namespace: "verif"}, h.Script[int](h.NewSrc("s"), h.Unsafe, word))
			p.Plain(h.Script[int](h.NewSrc("p"), h.Unsafe, word)).Subscribe(h.Observer[int](plain))
			for i := range recs {
				i := i
				vrt.GoNamed("subscriber", func() { obs.Subscribe(h.Observer[int](recs[i])) })
			}
		}
		return fw.Instance{Body: body, Outcome: func() string { return recs[0].Trace() + "|" + recs[1].Trace() }, Nontrivial: func(r *vrt.Result) bool { return r.Switches > 1 }, Check: func(r *vrt.Result) []fw.Violation {
			roprometheus.SetLicenseBypassForVerification(false)
			var out []fw.Violation
			sig := fmt.Sprintf("prom/Pipe%d.concurrent", p.N)
			for _, rc := range recs {
				if !h.SameTrace(rc.Events(), plain.Events()) {
					out = append(out, fw.V(sig+"/transparency-trace/differs", fmt.Sprintf("a concurrent subscriber received [%s], plain pipeline delivers [%s]", rc.Trace(), plain.Trace())))
					break
				}
			}
			if r.Crash != nil {
				out = append(out, fw.V(sig+"/panic/goroutine", r.Crash.Value))
			}
			if coll != nil {
				roprometheus.SetLicenseBypassForVerification(true)
				g, err := gather(coll)
				roprometheus.SetLicenseBypassForVerification(false)
				if err == nil {
					if got := g.counters["verif_ro_subscriptions_total"]; got != 2 {
						out = append(out, fw.V(sig+"/counter-subscriptions_total/mismatch", fmt.Sprintf("2 concurrent subscriptions counted as %v", got)))
					}
					if got := g.counters["verif_ro_notification_in_total"]; got != 4 {
						out = append(out, fw.V(sig+"/counter-notification_in_total/mismatch", fmt.Sprintf("2 concurrent subscriptions x 2 values counted as %v", got)))
					}
				}
			}
			return out
		}}
	}}
}

func init() {
	checks.Registry["C19"] = func(tier string) []fw.Scenario {
		maxVals, bound := 2, 1
		if tier == "thorough" {
			maxVals, bound = 3, 2
		}
		words := h.Legal([]interface{}{1, 2, 3}, maxVals, []h.Kind{h.C, h.E}, false)
		words = append(words, []h.Ev{h.Nx(1), h.Co(), h.Nx(2)}, []h.Ev{h.Nx(3), h.Nx(1), h.Nx(2), h.Nx(3), h.Co()})
		var scns []fw.Scenario
		for _, p := range promPipes {
			p := p
			scns = append(scns, fw.Scenario{ID: fmt.Sprintf("C19/Pipe%d/%s", p.N, p.Layout), Group: fmt.Sprintf("Pipe%d", p.N), Run: func(c *fw.Ctx) {
				for _, w := range words {
					for _, lic := range []bool{false, true} {
						for _, ns := range []int{1, 3} {
							c.Explore(c19Case(p, w, lic, ns))
						}
					}
				}
				for _, w := range [][]h.Ev{{h.Nx(1), h.Nx(2), h.Co()}, {h.Nx(1), h.Er(h.ErrSrc)}} {
					for _, b := range []bool{false, true} {
						for _, st := range [][]bool{{true}, {true, true}, {false, true}, {true, false, true}, {false, false}} {
							c.Explore(c19LicenceHistory(p, w, b, st))
						}
					}
				}
			}})
			if p.Layout == "line" && (p.N <= 3 || p.N == 24) {
				// a scenario of its own: C13 re-runs it under the race detector
				scns = append(scns, fw.Scenario{ID: fmt.Sprintf("C19/concurrent/Pipe%d", p.N), Group: fmt.Sprintf("Pipe%d", p.N), Run: func(c *fw.Ctx) {
					c.Explore(c19Concurrent(p, bound))
				}})
			}
		}
		scns = append(scns, fw.Scenario{ID: "C19/standalone", Group: "standalone", Run: func(c *fw.Ctx) {
			for _, w := range h.Words([]h.Ev{h.Nx(1), h.Er(h.ErrSrc), h.Co()}, 4) {
				c.Explore(c19Standalone(w))
			}
			for _, w := range h.Legal([]interface{}{1, 2}, 2, []h.Kind{h.C, h.E}, true) {
				for _, lic := range []bool{false, true} {
					c.Explore(c19StandaloneTransparent(w, lic))
				}
			}
		}})
		return scns
	}
}
