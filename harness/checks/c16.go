package checks

import (
	"context"
	"fmt"
	"strings"
	"time"
	"unsafe"

	"github.com/samber/ro"
	"verif.local/harness/fw"
	"verif.local/harness/h"
	"verif.local/vrt"
)

// C16 - time-driven operators never act early, never reorder, and stop when told. Everything runs on
// the virtual clock; only lower bounds on time and order/count relations are asserted, so that every
// schedule (including "this thread was slow: the timer fired first") must satisfy them.

type emission struct {
	e    h.Ev
	at   int64  // virtual ns when the producer issued it
	tick uint64 // logical time
	done uint64 // logical time at which the producer's call returned (0: it has not)
}

type c16log struct {
	ems      []emission
	subAt    int64
	cutAt    int64 // virtual ns when Unsubscribe/cancel returned (-1: never)
	cutTick  uint64
	attempts []int64
}

//go:norace
func (l *c16log) emit(e h.Ev) {
	l.ems = append(l.ems, emission{e: e, at: vrt.NowNS(), tick: vrt.Tick()})
}

//go:norace
func (l *c16log) returned() {
	if n := len(l.ems); n > 0 {
		l.ems[n-1].done = vrt.Tick()
	}
}

//go:norace
func (l *c16log) lastEmissionAt() int64 {
	if len(l.ems) == 0 {
		return 0
	}
	return l.ems[len(l.ems)-1].at
}

//go:norace
func (l *c16log) cut() { l.cutAt = vrt.NowNS(); l.cutTick = vrt.Tick() }

//go:norace
func (l *c16log) attempt() { l.attempts = append(l.attempts, vrt.NowNS()) }

// timedOp is a time-driven operator (or source) under test.
type timedOp struct {
	name    string
	d       time.Duration // its duration parameter
	creates bool          // a source: no input timeline
	blocks  bool          // Subscribe blocks (Timer)
	build   func(src ro.Observable[int], l *c16log) func(rec *h.Rec) ro.Subscription
	check   func(l *c16log, out []h.Entry, add func(clause, cls, detail string))
	maxTime time.Duration
}

// c16SubCtx, when set, is the context the case subscribes with (cancellation cases).
var c16SubCtx context.Context

//go:norace
func c16GetCtx() context.Context { return c16SubCtx }

//go:norace
func c16SetCtx(c context.Context) { c16SubCtx = c }

func subTyped[T any](o ro.Observable[T]) func(rec *h.Rec) ro.Subscription {
	return func(rec *h.Rec) ro.Subscription {
		if c := c16GetCtx(); c != nil {
			return o.SubscribeWithContext(c, h.Observer[T](rec))
		}
		return o.Subscribe(h.Observer[T](rec))
	}
}

func ms(ns int64) string { return fmt.Sprintf("%.1fu", float64(ns)/float64(u)) }

// periodic: values 0,1,2,...; value k never before first + k*period after subscription.
func periodicCheck(first, period time.Duration, val func(k int) interface{}, count int) func(l *c16log, out []h.Entry, add func(clause, cls, detail string)) {
	return func(l *c16log, out []h.Entry, add func(clause, cls, detail string)) {
		k := 0
		for _, en := range out {
			if en.K == h.E {
				add("periodic-source-failed", "error", fmt.Sprintf("the source delivered the error %q", en.Err.Error()))
				return
			}
			if en.K != h.N {
				continue
			}
			if want := val(k); fmt.Sprint(en.V) != fmt.Sprint(want) {
				add("periodic-values", "wrong-value", fmt.Sprintf("value #%d is %v, expected %v", k, en.V, want))
				return
			}
			min := int64(first) + int64(k)*int64(period)
			if en.T-l.subAt < min {
				add("emitted-early", "periodic", fmt.Sprintf("value #%d was delivered %s after subscription, not before %s is allowed", k, ms(en.T-l.subAt), ms(min)))
				return
			}
			k++
		}
		if count >= 0 && k > count {
			add("periodic-values", "too-many", fmt.Sprintf("%d values delivered, the definition has %d", k, count))
		}
	}
}

func subsequenceOf(vals []interface{}, src []interface{}) bool {
	j := 0
	for _, v := range vals {
		for j < len(src) && fmt.Sprint(src[j]) != fmt.Sprint(v) {
			j++
		}
		if j == len(src) {
			return false
		}
		j++
	}
	return true
}

// emAt is the instant at which the producer issued value v (values are distinct within a timeline); -1 if
// it never did. An operator sees the value somewhere between that instant and the delivery downstream: with
// a clock deviation the producer or the operator is descheduled in between, so instants the operator reads
// itself (time.Now) are only known to lie in [emission, delivery].
func emAt(l *c16log, v interface{}) int64 {
	for _, em := range l.ems {
		if em.e.K == h.N && fmt.Sprint(em.e.V) == fmt.Sprint(v) {
			return em.at
		}
	}
	return -1
}

func srcValues(l *c16log) []interface{} {
	var out []interface{}
	for _, e := range l.ems {
		if e.e.K == h.N {
			out = append(out, e.e.V)
		}
	}
	return out
}

func c16Ops() []timedOp {
	var ops []timedOp
	i64 := func(k int) interface{} { return int64(k) }
	for _, p := range []time.Duration{1 * u, 2 * u, 3 * u} {
		p := p
		ops = append(ops, timedOp{name: fmt.Sprintf("Interval(%s)", ms(int64(p))), d: p, creates: true, maxTime: 4*p + u,
			build: func(src ro.Observable[int], l *c16log) func(rec *h.Rec) ro.Subscription {
				return subTyped(ro.Interval(p))
			},
			check: periodicCheck(p, p, i64, -1)})
		for _, init := range []time.Duration{0, 1 * u, 2 * u} {
			init := init
			ops = append(ops, timedOp{name: fmt.Sprintf("IntervalWithInitial(%s,%s)", ms(int64(init)), ms(int64(p))), d: p, creates: true, maxTime: init + 3*p + u,
				build: func(src ro.Observable[int], l *c16log) func(rec *h.Rec) ro.Subscription {
					return subTyped(ro.IntervalWithInitial(init, p))
				},
				check: periodicCheck(init, p, i64, -1)})
		}
		ops = append(ops, timedOp{name: fmt.Sprintf("Timer(%s)", ms(int64(p))), d: p, creates: true, blocks: true, maxTime: 2*p + u,
			build: func(src ro.Observable[int], l *c16log) func(rec *h.Rec) ro.Subscription { return subTyped(ro.Timer(p)) },
			check: periodicCheck(p, p, func(int) interface{} { return p }, 1)})
		ops = append(ops, timedOp{name: fmt.Sprintf("RangeWithInterval(3,6,%s)", ms(int64(p))), d: p, creates: true, maxTime: 4*p + u,
			build: func(src ro.Observable[int], l *c16log) func(rec *h.Rec) ro.Subscription {
				return subTyped(ro.RangeWithInterval(3, 6, p))
			},
			check: periodicCheck(p, p, func(k int) interface{} { return int64(3 + k) }, 3)})
		ops = append(ops, timedOp{name: fmt.Sprintf("RangeWithInterval(6,3,%s)", ms(int64(p))), d: p, creates: true, maxTime: 4*p + u,
			build: func(src ro.Observable[int], l *c16log) func(rec *h.Rec) ro.Subscription {
				return subTyped(ro.RangeWithInterval(6, 3, p))
			},
			check: periodicCheck(p, p, func(k int) interface{} { return int64(6 - k) }, 3)})
		ops = append(ops, timedOp{name: fmt.Sprintf("RangeWithStepAndInterval(0,1,0.5,%s)", ms(int64(p))), d: p, creates: true, maxTime: 3*p + u,
			build: func(src ro.Observable[int], l *c16log) func(rec *h.Rec) ro.Subscription {
				return subTyped(ro.RangeWithStepAndInterval(0, 1, 0.5, p))
			},
			check: periodicCheck(p, p, func(k int) interface{} { return float64(k) * 0.5 }, 2)})
		ops = append(ops, timedOp{name: fmt.Sprintf("RepeatWithInterval(7,2,%s)", ms(int64(p))), d: p, creates: true, maxTime: 3*p + u,
			build: func(src ro.Observable[int], l *c16log) func(rec *h.Rec) ro.Subscription {
				return subTyped(ro.RepeatWithInterval(7, 2, p))
			},
			check: periodicCheck(p, p, func(k int) interface{} { return 7 }, 2)})

		// delayed delivery
		delayCheck := func(l *c16log, out []h.Entry, add func(clause, cls, detail string)) {
			// k-th delivered notification corresponds to the k-th emitted one (order kept)
			for k, en := range out {
				if k >= len(l.ems) {
					add("delay-invented", "extra", fmt.Sprintf("notification %s was delivered but never emitted", en.Ev.Short()))
					return
				}
				em := l.ems[k]
				if !h.SameEv(em.e, en.Ev) {
					add("delay-order", "reordered", fmt.Sprintf("delivery #%d is %s, emission #%d was %s", k, en.Ev.Short(), k, em.e.Short()))
					return
				}
				if en.T-em.at < int64(p) {
					add("emitted-early", "delay", fmt.Sprintf("%s emitted at %s was delivered at %s, less than %s later", em.e.Short(), ms(em.at), ms(en.T), ms(int64(p))))
					return
				}
			}
		}
		ops = append(ops, timedOp{name: fmt.Sprintf("Delay(%s)", ms(int64(p))), d: p, maxTime: 0,
			build: func(src ro.Observable[int], l *c16log) func(rec *h.Rec) ro.Subscription {
				return subTyped(ro.Delay[int](p)(src))
			},
			check: delayCheck})
		ops = append(ops, timedOp{name: fmt.Sprintf("DelayEach(%s)", ms(int64(p))), d: p, maxTime: 0,
			build: func(src ro.Observable[int], l *c16log) func(rec *h.Rec) ro.Subscription {
				return subTyped(ro.DelayEach[int](p)(src))
			},
			check: func(l *c16log, out []h.Entry, add func(clause, cls, detail string)) {
				k := 0
				for _, en := range out {
					if en.K != h.N {
						continue
					}
					for k < len(l.ems) && l.ems[k].e.K != h.N {
						k++
					}
					if k >= len(l.ems) {
						add("delay-invented", "extra", "value delivered but never emitted")
						return
					}
					if !h.SameEv(l.ems[k].e, en.Ev) {
						add("delay-order", "reordered", fmt.Sprintf("delivered %s, expected %s", en.Ev.Short(), l.ems[k].e.Short()))
						return
					}
					if en.T-l.ems[k].at < int64(p) {
						add("emitted-early", "delay", fmt.Sprintf("%s emitted at %s delivered at %s", en.Ev.Short(), ms(l.ems[k].at), ms(en.T)))
						return
					}
					k++
				}
			}})
		ops = append(ops, timedOp{name: fmt.Sprintf("Timeout(%s)", ms(int64(p))), d: p,
			build: func(src ro.Observable[int], l *c16log) func(rec *h.Rec) ro.Subscription {
				return subTyped(ro.Timeout[int](p)(src))
			},
			check: func(l *c16log, out []h.Entry, add func(clause, cls, detail string)) {
				var vals []interface{}
				for _, en := range out {
					if en.K == h.N {
						vals = append(vals, en.V)
					}
					if en.K != h.E || en.Err == h.ErrSrc {
						continue
					}
					// a timeout error at T: the source had not terminated, and no value went through the operator
					// during the p before T. Activity is measured where the operator hands the value on (a
					// producer may be descheduled between taking its timestamp and reaching the operator; a
					// value that arrives at the very instant T, after the timer fired and before its goroutine
					// delivered the error, does not shorten the quiet period that ended at T).
					T := en.T
					for _, em := range l.ems {
						// the source's terminal had gone through the operator (the producer's call had returned)
						// before the error was delivered
						if em.e.K != h.N && em.done != 0 && em.done < en.In {
							add("timeout-after-source-terminated", "late", fmt.Sprintf("timeout error at %s although the source had already terminated at %s", ms(T), ms(em.at)))
							return
						}
					}
					// The timer fired at some instant F <= T after a full quiet period (F, the error may be
					// delivered later: the observer was busy). F is not observable; the error is justified if SOME
					// gap of at least p separates two consecutive activities (subscription, values going through,
					// in order) before T, T itself closing the last gap.
					acts := []int64{l.subAt}
					for _, prev := range out {
						if prev.In >= en.In {
							break
						}
						if prev.K == h.N && prev.T < T {
							acts = append(acts, prev.T)
						}
					}
					acts = append(acts, T)
					quiet := false
					for i := 1; i < len(acts); i++ {
						if acts[i]-acts[i-1] >= int64(p) {
							quiet = true
						}
					}
					if !quiet {
						add("emitted-early", "timeout", fmt.Sprintf("error %q at %s: no quiet period of %s between the activities at %v", en.Err.Error(), ms(T), ms(int64(p)), actsString(acts)))
					}
				}
				if !subsequenceOf(vals, srcValues(l)) {
					add("not-a-subsequence", "values", fmt.Sprintf("delivered %v from source %v", vals, srcValues(l)))
				}
			}})
		ops = append(ops, timedOp{name: fmt.Sprintf("ThrottleTime(%s)", ms(int64(p))), d: p,
			build: func(src ro.Observable[int], l *c16log) func(rec *h.Rec) ro.Subscription {
				return subTyped(ro.ThrottleTime[int](p)(src))
			},
			check: func(l *c16log, out []h.Entry, add func(clause, cls, detail string)) {
				var vals []interface{}
				// the operator compares the instants at which it SAW two values; it saw the earlier one not before
				// its emission and the later one not after its delivery
				last := int64(-1 << 62)
				for _, en := range out {
					if en.K != h.N {
						continue
					}
					vals = append(vals, en.V)
					if en.T-last < int64(p) {
						add("more-than-one-per-window", "throttle", fmt.Sprintf("two values let through although the later was delivered only %s after the earlier was emitted (window %s)", ms(en.T-last), ms(int64(p))))
						return
					}
					if at := emAt(l, en.V); at >= 0 {
						last = at
					} else {
						last = en.T
					}
				}
				if !subsequenceOf(vals, srcValues(l)) {
					add("not-a-subsequence", "values", fmt.Sprintf("delivered %v from source %v", vals, srcValues(l)))
				}
			}})
		ops = append(ops, timedOp{name: fmt.Sprintf("SampleTime(%s)", ms(int64(p))), d: p, maxTime: 8 * u,
			build: func(src ro.Observable[int], l *c16log) func(rec *h.Rec) ro.Subscription {
				return subTyped(ro.SampleTime[int](p)(src))
			},
			check: func(l *c16log, out []h.Entry, add func(clause, cls, detail string)) {
				var vals []interface{}
				perTick := map[int64]int{}
				for _, en := range out {
					if en.K != h.N {
						continue
					}
					vals = append(vals, en.V)
					tick := (en.T - l.subAt) / int64(p)
					perTick[tick]++
					if en.T-l.subAt < int64(p) {
						add("emitted-early", "sample", fmt.Sprintf("a sample was delivered %s after subscription, before the first tick at %s", ms(en.T-l.subAt), ms(int64(p))))
						return
					}
				}
				if len(vals) > int((lastT(out)-l.subAt)/int64(p)) && len(vals) > 0 {
					add("more-than-one-per-tick", "sample", fmt.Sprintf("%d samples within %s (tick %s)", len(vals), ms(lastT(out)-l.subAt), ms(int64(p))))
				}
				if !subsequenceOf(vals, srcValues(l)) {
					add("not-a-subsequence", "values", fmt.Sprintf("delivered %v from source %v", vals, srcValues(l)))
				}
			}})
		bufCheck := func(size int) func(l *c16log, out []h.Entry, add func(clause, cls, detail string)) {
			return func(l *c16log, out []h.Entry, add func(clause, cls, detail string)) {
				var flat []interface{}
				completed := false
				for _, en := range out {
					switch en.K {
					case h.N:
						b := en.V.([]int)
						if size > 0 && len(b) > size {
							add("buffer-too-large", "count", fmt.Sprintf("a buffer of %d values with size %d", len(b), size))
						}
						for _, v := range b {
							flat = append(flat, v)
						}
					case h.C:
						completed = true
					}
				}
				src := srcValues(l)
				if len(flat) > len(src) || fmt.Sprint(flat) != fmt.Sprint(src[:len(flat)]) {
					add("not-a-prefix", "values", fmt.Sprintf("the concatenated buffers %v are not a prefix of the source %v", flat, src))
				} else if completed && len(flat) != len(src) && l.cutAt < 0 {
					add("values-lost-at-completion", "values", fmt.Sprintf("completed with buffers %v, source emitted %v", flat, src))
				}
			}
		}
		ops = append(ops, timedOp{name: fmt.Sprintf("BufferWithTime(%s)", ms(int64(p))), d: p, maxTime: 8 * u,
			build: func(src ro.Observable[int], l *c16log) func(rec *h.Rec) ro.Subscription {
				return subTyped(ro.BufferWithTime[int](p)(src))
			}, check: bufCheck(0)})
		ops = append(ops, timedOp{name: fmt.Sprintf("BufferWithTimeOrCount(1,%s)", ms(int64(p))), d: p, maxTime: 8 * u,
			build: func(src ro.Observable[int], l *c16log) func(rec *h.Rec) ro.Subscription {
				return subTyped(ro.BufferWithTimeOrCount[int](1, p)(src))
			}, check: bufCheck(1)})
		ops = append(ops, timedOp{name: fmt.Sprintf("BufferWithTimeOrCount(2,%s)", ms(int64(p))), d: p, maxTime: 8 * u,
			build: func(src ro.Observable[int], l *c16log) func(rec *h.Rec) ro.Subscription {
				return subTyped(ro.BufferWithTimeOrCount[int](2, p)(src))
			}, check: bufCheck(2)})
		ops = append(ops, timedOp{name: fmt.Sprintf("RetryWithConfig(delay=%s)", ms(int64(p))), d: p, creates: true, blocks: true, maxTime: 5*p + u,
			build: func(src ro.Observable[int], l *c16log) func(rec *h.Rec) ro.Subscription {
				failing := ro.NewObservable(func(d ro.Observer[int]) ro.Teardown {
					l.attempt()
					d.Error(h.ErrSrc)
					return nil
				})
				return subTyped(ro.RetryWithConfig[int](ro.RetryConfig{MaxRetries: 2, Delay: p})(failing))
			},
			check: func(l *c16log, out []h.Entry, add func(clause, cls, detail string)) {
				for i := 1; i < len(l.attempts); i++ {
					if l.attempts[i]-l.attempts[i-1] < int64(p) {
						add("emitted-early", "retry-delay", fmt.Sprintf("attempt %d started %s after attempt %d failed (delay %s)", i+1, ms(l.attempts[i]-l.attempts[i-1]), i, ms(int64(p))))
					}
				}
				if len(l.attempts) > 3 {
					add("retry-count", "too-many", fmt.Sprintf("%d attempts with MaxRetries 2", len(l.attempts)))
				}
			}})
		ops = append(ops, timedOp{name: fmt.Sprintf("ContextWithTimeout(%s)", ms(int64(p))), d: p,
			build: func(src ro.Observable[int], l *c16log) func(rec *h.Rec) ro.Subscription {
				probe := ro.MapWithContext(func(ctx context.Context, v int) (context.Context, int) {
					dl, ok := ctx.Deadline()
					em := l.lastEmissionAt()
					if !ok || int64(dl.Sub(vrt.Base)) < em+int64(p) {
						return ctx, -1000 - v
					}
					return ctx, v
				})(ro.ContextWithTimeout[int](p)(src))
				return subTyped(probe)
			},
			check: func(l *c16log, out []h.Entry, add func(clause, cls, detail string)) {
				for _, en := range out {
					if en.K == h.N && en.V.(int) <= -1000 {
						add("emitted-early", "context-deadline", fmt.Sprintf("item %d was delivered with a context whose deadline is earlier than its emission + %s (or missing)", -1000-en.V.(int), ms(int64(p))))
						return
					}
				}
			}})
	}
	// downstream ends early: the time-driven operator must stop its timers
	for _, p := range []time.Duration{2 * u} {
		p := p
		noCheck := func(l *c16log, out []h.Entry, add func(clause, cls, detail string)) {}
		for _, x := range []struct {
			name string
			op   func(ro.Observable[int]) ro.Observable[int]
		}{
			{"Timeout", ro.Timeout[int](p)}, {"Delay", ro.Delay[int](p)}, {"DelayEach", ro.DelayEach[int](p)},
			{"ThrottleTime", ro.ThrottleTime[int](p)}, {"SampleTime", ro.SampleTime[int](p)},
		} {
			x := x
			ops = append(ops, timedOp{name: fmt.Sprintf("%s(%s)|Take(1)", x.name, ms(int64(p))), d: p, maxTime: 12 * u,
				build: func(src ro.Observable[int], l *c16log) func(rec *h.Rec) ro.Subscription {
					return subTyped(ro.Take[int](1)(x.op(src)))
				}, check: noCheck})
		}
		ops = append(ops, timedOp{name: fmt.Sprintf("BufferWithTime(%s)|Take(1)", ms(int64(p))), d: p, maxTime: 12 * u,
			build: func(src ro.Observable[int], l *c16log) func(rec *h.Rec) ro.Subscription {
				return subTyped(ro.Take[[]int](1)(ro.BufferWithTime[int](p)(src)))
			}, check: noCheck})
	}
	ops = append(ops, timedOp{name: "Timestamp", d: u,
		build: func(src ro.Observable[int], l *c16log) func(rec *h.Rec) ro.Subscription {
			return subTyped(ro.Timestamp[int]()(src))
		},
		check: func(l *c16log, out []h.Entry, add func(clause, cls, detail string)) {
			prev := time.Duration(-1)
			for _, en := range out {
				if en.K != h.N {
					continue
				}
				tv := en.V.(ro.TimestampValue[int])
				lo, hi := time.Duration(emAt(l, tv.Value)-l.subAt), time.Duration(en.T-l.subAt)
				if tv.Timestamp < lo || tv.Timestamp > hi {
					add("timestamp-wrong", "value", fmt.Sprintf("value %d stamped %v, emitted %v and delivered %v after subscription", tv.Value, tv.Timestamp, lo, hi))
					return
				}
				if tv.Timestamp < prev {
					add("timestamp-wrong", "decreasing", "timestamps decrease")
				}
				prev = tv.Timestamp
			}
		}})
	ops = append(ops, timedOp{name: "TimeInterval", d: u,
		build: func(src ro.Observable[int], l *c16log) func(rec *h.Rec) ro.Subscription {
			return subTyped(ro.TimeInterval[int]()(src))
		},
		check: func(l *c16log, out []h.Entry, add func(clause, cls, detail string)) {
			// interval k = (instant the operator saw value k) - (instant it saw value k-1, or subscribed); each
			// of those instants lies between emission and delivery
			prevLo, prevHi := l.subAt, int64(-1) // prevHi -1: unknown upper bound for the subscription instant
			for _, en := range out {
				if en.K != h.N {
					continue
				}
				iv := en.V.(ro.IntervalValue[int])
				at := emAt(l, iv.Value)
				lo := int64(0)
				if prevHi >= 0 && at-prevHi > 0 {
					lo = at - prevHi
				}
				hi := en.T - prevLo
				if int64(iv.Interval) < lo || int64(iv.Interval) > hi {
					add("interval-wrong", "value", fmt.Sprintf("value %d has interval %v; the time since the previous one lies between %v and %v", iv.Value, iv.Interval, time.Duration(lo), time.Duration(hi)))
					return
				}
				prevLo, prevHi = at, en.T
			}
		}})
	return ops
}

func actsString(a []int64) string {
	var p []string
	for _, t := range a {
		p = append(p, ms(t))
	}
	return strings.Join(p, ", ")
}

func lastT(out []h.Entry) int64 {
	if len(out) == 0 {
		return 0
	}
	return out[len(out)-1].T
}

// timeline is a list of (gap before, notification).
type tlItem struct {
	gap time.Duration
	e   h.Ev
}

func tlString(tl []tlItem) string {
	var s []string
	for _, it := range tl {
		s = append(s, fmt.Sprintf("+%s:%s", ms(int64(it.gap)), it.e.Short()))
	}
	return strings.Join(s, " ")
}

// timelines: every gap sequence of length <= n over {0, d-1u, d, d+1u}, endings none / C / E.
func timelines(d time.Duration, n int) [][]tlItem {
	gaps := []time.Duration{0, d - u, d, d + u}
	if d == u {
		gaps = []time.Duration{0, d, d + u}
	}
	var out [][]tlItem
	var rec func(cur []tlItem)
	rec = func(cur []tlItem) {
		out = append(out, append([]tlItem{}, cur...))
		for _, g := range gaps {
			out = append(out, append(append([]tlItem{}, cur...), tlItem{g, h.Co()}), append(append([]tlItem{}, cur...), tlItem{g, h.Er(h.ErrSrc)}))
		}
		if len(cur) == n {
			return
		}
		for _, g := range gaps {
			rec(append(cur, tlItem{g, h.Nx(len(cur) + 1)}))
		}
	}
	rec(nil)
	return out
}

func c16Case(op timedOp, tl []tlItem, cutAt time.Duration, bound int) fw.Case {
	return c16CaseSlow(op, tl, cutAt, bound, 0)
}

// c16CaseSlow: as c16Case, with an observer whose Next callback takes `slow` of virtual time (a
// consumer slower than the configured duration keeps the operator busy while its timers run).
func c16CaseSlow(op timedOp, tl []tlItem, cutAt time.Duration, bound int, slow time.Duration) fw.Case {
	return c16CaseFull(op, tl, cutAt, bound, slow, false)
}

// c16CaseFull: with cancel set, the subscription context is cancelled at cutAt instead of the subscription
// being unsubscribed. Operators are free to ignore the context or to stop; whatever they still deliver must
// keep the lower bounds (a cancelled pause must not release its value early).
func c16CaseFull(op timedOp, tl []tlItem, cutAt time.Duration, bound int, slow time.Duration, cancel bool) fw.Case {
	nm := tlString(tl)
	if slow > 0 {
		nm += fmt.Sprintf(" / consumer takes %s per value", ms(int64(slow)))
	}
	if cutAt >= 0 && cancel {
		nm += fmt.Sprintf(" / context cancelled@%s", ms(int64(cutAt)))
	} else if cutAt >= 0 {
		nm += fmt.Sprintf(" / unsubscribe@%s", ms(int64(cutAt)))
	}
	total := time.Duration(0)
	for _, it := range tl {
		total += it.gap
	}
	maxT := op.maxTime
	if maxT == 0 {
		maxT = total + 3*op.d + 2*u
	}
	maxT += time.Duration(len(tl)+2) * slow
	return fw.Case{Name: nm, Bound: bound, Opts: vrt.Options{Horizon: 60000, MaxTime: int64(maxT)}, Make: func() fw.Instance {
		rec := h.NewRec("out")
		if slow > 0 {
			rec.Hook = func(r *h.Rec, idx int, e h.Ev) {
				if e.K == h.N {
					vrt.HSleep(int64(slow))
				}
			}
		}
		l := &c16log{cutAt: -1}
		var escaped string
		body := func() {
			src := h.NewSrc("src")
			o, push := h.Pushed[int](src, h.Unsafe)
			l.subAt = vrt.NowNS()
			var sub0 ro.Subscription
			var cancelCtx context.CancelFunc
			if cancel {
				var c context.Context
				c, cancelCtx = context.WithCancel(context.Background())
				c16SetCtx(c)
				defer c16SetCtx(nil)
			}
			subscribe := op.build(o, l)
			if op.blocks {
				vrt.GoNamed("subscribe", func() { guard(&escaped, "Subscribe", func() { sub0 = subscribe(rec) }) })
			} else {
				guard(&escaped, "Subscribe", func() { sub0 = subscribe(rec) })
			}
			if len(tl) > 0 && !op.creates {
				vrt.GoNamed("producer", func() {
					for _, it := range tl {
						vrt.HSleep(int64(it.gap))
						l.emit(it.e)
						push.Emit(it.e)
						l.returned()
					}
				})
			}
			if cutAt >= 0 && cancel {
				vrt.HSleep(int64(cutAt))
				cancelCtx()
			} else if cutAt >= 0 {
				vrt.HSleep(int64(cutAt))
				if sub0 != nil {
					sub0.Unsubscribe()
					l.cut()
				}
			}
		}
		return fw.Instance{Body: body, Outcome: func() string {
			var s []string
			for _, en := range rec.Log {
				s = append(s, fmt.Sprintf("%s@%s", en.Ev.Short(), ms(en.T)))
			}
			return strings.Join(s, " ")
		}, Nontrivial: func(r *vrt.Result) bool { return len(rec.Log) > 0 }, Check: func(r *vrt.Result) []fw.Violation {
			var out []fw.Violation
			sig := "time/" + op.name
			where := fmt.Sprintf("%s, timeline [%s]", op.name, nm)
			add := func(clause, cls, detail string) {
				out = append(out, fw.V(sig+"/"+clause+"/"+cls, where+": "+detail))
			}
			if escaped != "" {
				add("panic-escaped", "subscribe", escaped)
			}
			if r.Crash != nil {
				add("goroutine-top-panic", r.Crash.Name, r.Crash.Value)
			}
			if g := h.GrammarError(rec.Events()); g != "" {
				add("grammar", grammarClass(rec.Events()), g)
			}
			op.check(l, rec.Log, add)
			// (tickers only, as after Unsubscribe below: a pending one-shot timer can only fire into a closed
			// subscriber; a ticker nobody stopped keeps a goroutine busy for ever)
			if l.cutAt < 0 && hasTerminal(rec.Events()) && r.TickersLeft > 0 {
				add("timer-left-armed", "after-termination", fmt.Sprintf("the stream has terminated (trace [%s]) and %d periodic timers of the library are still running", rec.Trace(), r.TickersLeft))
			}
			if l.cutAt >= 0 {
				for _, en := range rec.Log {
					if en.In > l.cutTick {
						add("delivery-after-unsubscribe", [...]string{"value", "error", "complete"}[en.K], fmt.Sprintf("%s was delivered at %s, Unsubscribe had returned at %s", en.Ev.Short(), ms(en.T), ms(l.cutAt)))
						break
					}
				}
				// a one-shot timer that is still pending can at most fire into a closed subscriber (silence is
				// what the property asks for, and the clause above checks it); a ticker that nobody stopped keeps
				// firing for ever
				if r.TickersLeft > 0 {
					add("timer-left-armed", "after-unsubscribe", fmt.Sprintf("%d periodic timers of the library are still running after Unsubscribe returned", r.TickersLeft))
				}
				for _, b := range r.Blocked {
					if b.Name != "producer" && b.Name != "main" && b.Name != "subscribe" {
						add("goroutine-left", b.Name, fmt.Sprintf("goroutine %s still blocked (%s) after Unsubscribe", b.Name, b.Op))
						break
					}
				}
			}
			return out
		}}
	}}
}

// c16Twice: a periodic source value subscribed twice - one subscription after the other has been cut, or
// two overlapping ones. Each subscription is a run of its own: it starts at 0 and keeps the lower bounds
// counted from its own subscription instant.
func c16Twice(op timedOp, overlapping bool) fw.Case {
	nm := "subscribed twice, one after the other"
	if overlapping {
		nm = "subscribed twice, overlapping"
	}
	return fw.Case{Name: nm, Opts: vrt.Options{Horizon: 60000, MaxTime: int64(2*op.maxTime + 2*u)}, Make: func() fw.Instance {
		recs := []*h.Rec{h.NewRec("first"), h.NewRec("second")}
		logs := []*c16log{{cutAt: -1}, {cutAt: -1}}
		var escaped string
		var handles twoSubs
		body := func() {
			o, _ := h.Pushed[int](h.NewSrc("unused"), h.Unsafe)
			subscribe := op.build(o, logs[0]) // ONE observable value
			start := func(i int) {
				logs[i].subAt = vrt.NowNS()
				vrt.GoNamed(fmt.Sprint("subscribe", i+1), func() {
					guard(&escaped, "Subscribe", func() { handles.set(i, subscribe(recs[i])) })
				})
			}
			start(0)
			if overlapping {
				vrt.HSleep(int64(u))
				start(1)
				return
			}
			vrt.HSleep(int64(op.maxTime/2/u*u + u))
			if s := handles.get(0); s != nil {
				s.Unsubscribe()
				logs[0].cut()
			}
			start(1)
		}
		return fw.Instance{Body: body, Outcome: func() string { return recs[0].Trace() + " | " + recs[1].Trace() }, Nontrivial: func(r *vrt.Result) bool { return recs[1].Len() > 0 },
			Check: func(r *vrt.Result) []fw.Violation {
				var out []fw.Violation
				for i := range recs {
					i := i
					add := func(clause, cls, detail string) {
						out = append(out, fw.V("time/"+op.name+"/"+clause+"/"+cls, fmt.Sprintf("%s, %s, subscription #%d: %s (first [%s], second [%s])", op.name, nm, i+1, detail, recs[0].Trace(), recs[1].Trace())))
					}
					if g := h.GrammarError(recs[i].Events()); g != "" {
						add("grammar", grammarClass(recs[i].Events()), g)
					}
					op.check(logs[i], recs[i].Log, add)
				}
				if escaped != "" {
					out = append(out, fw.V("time/"+op.name+"/panic-escaped/subscribe", escaped))
				}
				if r.Crash != nil {
					out = append(out, fw.V("time/"+op.name+"/goroutine-top-panic/"+r.Crash.Name, r.Crash.Value))
				}
				return out
			}}
	}}
}

// twoSubs hands the Subscription from the subscribing thread to the driver, as a channel or a mutex would in
// a real program (that hand-over is a happens-before edge for the race detector).
// c16Resubscribed: a time-driven OPERATOR value subscribed, fed, cut, and subscribed again while its source
// stays silent: the second subscription must not deliver anything that belongs to the first (a pending
// sample, a throttling window, a buffer).
func c16Resubscribed(op timedOp, tl []tlItem) fw.Case {
	nm := "subscribed again after [" + tlString(tl) + "] and an unsubscription"
	total := time.Duration(0)
	for _, it := range tl {
		total += it.gap
	}
	return fw.Case{Name: nm, Opts: vrt.Options{Horizon: 60000, MaxTime: int64(total + 4*op.d + 2*u)}, Make: func() fw.Instance {
		rec1, rec2 := h.NewRec("first"), h.NewRec("second")
		l1, l2 := &c16log{cutAt: -1}, &c16log{cutAt: -1}
		var escaped string
		body := func() {
			src := h.NewSrc("src")
			o, push := h.Pushed[int](src, h.Unsafe)
			subscribe := op.build(o, l1) // ONE operator application
			l1.subAt = vrt.NowNS()
			var s1 ro.Subscription
			guard(&escaped, "Subscribe", func() { s1 = subscribe(rec1) })
			for _, it := range tl {
				vrt.HSleep(int64(it.gap))
				l1.emit(it.e)
				push.Emit(it.e)
				l1.returned()
			}
			if s1 != nil {
				s1.Unsubscribe()
			}
			l2.subAt = vrt.NowNS()
			guard(&escaped, "Subscribe", func() { subscribe(rec2) })
			vrt.HSleep(int64(3 * op.d))
		}
		return fw.Instance{Body: body, Outcome: func() string { return rec1.Trace() + " | " + rec2.Trace() }, Check: func(r *vrt.Result) []fw.Violation {
			var out []fw.Violation
			add := func(clause, cls, detail string) {
				out = append(out, fw.V("time/"+op.name+"/second-subscription:"+clause+"/"+cls, fmt.Sprintf("%s, %s: %s (first [%s], second [%s])", op.name, nm, detail, rec1.Trace(), rec2.Trace())))
			}
			op.check(l2, rec2.Log, add)
			for _, en := range rec2.Log {
				if en.K == h.N {
					if b, ok := en.V.([]int); ok && len(b) == 0 {
						continue // an empty buffer carries nothing
					}
					add("value-from-the-first-subscription", "stale", fmt.Sprintf("the source emitted nothing during the second subscription, yet %s was delivered", en.Ev.Short()))
					break
				}
			}
			if escaped != "" {
				out = append(out, fw.V("time/"+op.name+"/panic-escaped/subscribe", escaped))
			}
			return out
		}}
	}}
}

type twoSubs struct {
	s    [2]ro.Subscription
	sync int64
}

//go:norace
func (t *twoSubs) set(i int, s ro.Subscription) {
	t.s[i] = s
	vrt.RaceReleaseMerge(unsafe.Pointer(&t.sync))
}

//go:norace
func (t *twoSubs) get(i int) ro.Subscription {
	vrt.RaceAcquire(unsafe.Pointer(&t.sync))
	return t.s[i]
}

func init() {
	Registry["C16"] = func(tier string) []fw.Scenario {
		n, bound := 2, 1
		if tier == "thorough" {
			n, bound = 3, 2
		}
		var scns []fw.Scenario
		for _, op := range c16Ops() {
			op := op
			scns = append(scns, fw.Scenario{ID: "C16/" + op.name, Group: strings.Split(op.name, "(")[0], Run: func(c *fw.Ctx) {
				tls := [][]tlItem{nil}
				if !op.creates {
					tls = timelines(op.d, n)
				} else if !strings.HasPrefix(op.name, "RetryWithConfig") { // (its oracle reads an attempt log that belongs to one subscription)
					c.Explore(c16Twice(op, false))
					c.Explore(c16Twice(op, true))
				}
				for _, tl := range tls {
					if !op.creates && !op.blocks && len(tl) > 0 && len(tl) <= 2 && tl[len(tl)-1].e.K == h.N && !strings.Contains(op.name, "ContextWithTimeout") {
						c.Explore(c16Resubscribed(op, tl))
					}
					c.Explore(c16Case(op, tl, -1, bound))
					if len(tl) > 0 || op.creates {
						// shorter than the duration (a timer armed before the value can fire during its
						// delivery) and longer (every timer armed before it has fired by the end)
						slows := []time.Duration{op.d - u, op.d + u}
						if op.d <= u {
							slows[0] = op.d
						}
						for _, slow := range slows {
							c.Explore(c16CaseSlow(op, tl, -1, bound-1, slow))
						}
					}
					// unsubscribe at every grid instant
					total := time.Duration(0)
					for _, it := range tl {
						total += it.gap
					}
					if op.creates {
						total = op.maxTime
					}
					if op.blocks {
						continue
					}
					for at := time.Duration(0); at <= total+op.d; at += u {
						c.Explore(c16Case(op, tl, at, bound-1))
						if !op.creates {
							c.Explore(c16CaseFull(op, tl, at, bound-1, 0, true))
						}
					}
				}
			}})
		}
		return scns
	}
}
