package checks

import (
	"strings"

	"verif.local/harness/fw"
)

// C13 - no data races. The concurrent scenario bodies of C02, C03 (races), C05, C06, C10, C11 and C12 are
// explored again in a -race build, with the scheduler's baton invisible to the race detector; the
// per-execution oracle is the detector's report (filtered to accesses made by samber/ro code).
func init() {
	Registry["C13"] = func(tier string) []fw.Scenario {
		fw.RaceOnly = true
		fw.BoundCap = 1
		if tier == "thorough" {
			fw.BoundCap = 2
		}
		var scns []fw.Scenario
		take := func(prop string, keep func(id string) bool) {
			for _, s := range Registry[prop](tier) {
				if keep(s.ID) {
					s.ID = "C13/" + s.ID
					scns = append(scns, s)
				}
			}
		}
		take("C02", func(id string) bool { return strings.HasSuffix(id, "/bare") || strings.HasSuffix(id, "/map") })
		take("C03", func(id string) bool { return strings.HasPrefix(id, "C03/races/") })
		take("C05", func(id string) bool { return strings.HasPrefix(id, "C05/conc/") })
		take("C06", func(id string) bool {
			return strings.HasPrefix(id, "C06/conc/") || strings.HasPrefix(id, "C06/collect/")
		})
		take("C10", func(id string) bool { return strings.HasPrefix(id, "C10/conc/") })
		take("C11", func(id string) bool { return strings.HasPrefix(id, "C11/conc/") })
		take("C12", func(id string) bool { return strings.HasPrefix(id, "C12/conc/") })
		take("C17", func(id string) bool { return strings.Contains(id, "ToChannel") || strings.Contains(id, "FromChannel") })
		// time-driven operators with a goroutine of their own (ticker, timers), including their unsubscribe
		// and cancellation cases: one duration each
		take("C16", func(id string) bool {
			for _, op := range []string{"C16/BufferWithTimeOrCount(1,1.0u)", "C16/BufferWithTime(1.0u)", "C16/SampleTime(1.0u)", "C16/Delay(1.0u)", "C16/Timeout(1.0u)", "C16/Interval(1.0u)"} {
				if id == op {
					return true
				}
			}
			return false
		})
		take("C09", func(id string) bool { return strings.HasPrefix(id, "C09/item-context/") })
		// the enterprise Prometheus pipes: two goroutines subscribing to one instrumented pipeline
		if Registry["C19"] != nil {
			// (arities 1..3: the 24-operator chain is the same generic function and too slow under the detector)
			take("C19", func(id string) bool { return strings.HasPrefix(id, "C19/concurrent/") && !strings.HasSuffix(id, "Pipe24") })
		}
		return scns
	}
}
