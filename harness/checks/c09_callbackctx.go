package checks

import (
	"context"
	"fmt"

	"github.com/samber/ro"
	"verif.local/harness/fw"
	"verif.local/harness/h"
	"verif.local/vrt"
)

// c09CallbackContexts: the higher-order operators whose context-aware callback RETURNS a context (GroupByWithContext,
// GroupByIWithContext, MergeMapIWithContext) are not catalogue rows. The callback attaches a marker; every value that
// travels on behind it - the group observables handed out, every item inside every group (the first of a key and
// the later ones), every inner value of the merge - must carry the marker and the subscription's value, never nil.
func c09CallbackContexts(tier string) []fw.Scenario {
	maxVals := 4
	if tier == "thorough" {
		maxVals = 6
	}
	mark := func(ctx context.Context) context.Context { return context.WithValue(ctx, h.KeyMid, "mid") }
	type form struct {
		name  string
		build func(src ro.Observable[int], set *recSet, out *h.Rec)
	}
	forms := []form{
		{"GroupByWithContext(v%2)", func(src ro.Observable[int], set *recSet, out *h.Rec) {
			subInner(ro.GroupByWithContext(func(ctx context.Context, v int) (context.Context, int) { return mark(ctx), v % 2 })(src), set, out, false, "group")
		}},
		{"GroupByIWithContext(i%2)", func(src ro.Observable[int], set *recSet, out *h.Rec) {
			subInner(ro.GroupByIWithContext(func(ctx context.Context, _ int, i int64) (context.Context, int) { return mark(ctx), int(i % 2) })(src), set, out, false, "group")
		}},
		{"MergeMapIWithContext", func(src ro.Observable[int], set *recSet, out *h.Rec) {
			sub(ro.MergeMapIWithContext(func(ctx context.Context, v int, _ int64) (context.Context, ro.Observable[int]) {
				return mark(ctx), ro.Just(v, v+10)
			})(src), out)
		}},
	}
	var scns []fw.Scenario
	for _, f := range forms {
		f := f
		scns = append(scns, fw.Scenario{ID: "C09/callback-context/" + f.name, Group: "callback-context", Run: func(c *fw.Ctx) {
			for n := 1; n <= maxVals; n++ {
				for _, end := range []h.Kind{h.C, h.E} {
					var word []h.Ev
					for i := 1; i <= n; i++ {
						word = append(word, h.Nx(i))
					}
					if end == h.C {
						word = append(word, h.Co())
					} else {
						word = append(word, h.Er(h.ErrSrc))
					}
					c.Explore(fw.Case{Name: h.Word(word), Opts: vrt.Options{Horizon: 40000}, Make: func() fw.Instance {
						set := &recSet{}
						out := h.NewRec("out")
						set.add(out)
						body := func() {
							curLate = nil
							f.build(h.Script[int](h.NewSrc("src"), h.Unsafe, word), set, out)
						}
						return fw.Instance{Body: body, Outcome: set.outcome, Check: func(r *vrt.Result) []fw.Violation {
							var res []fw.Violation
							for ri, rec := range set.all() {
								for k, en := range rec.Log {
									if en.K != h.N {
										continue
									}
									where := fmt.Sprintf("%s over [%s]: value #%d (%s) of %s", f.name, h.Word(word), k, en.Ev.Short(), rec.Name)
									cls := "outer"
									if ri > 0 {
										cls = "first-item-of-group"
										if k > 0 {
											cls = "later-item-of-group"
										}
									}
									switch {
									case en.CtxNil:
										res = append(res, fw.V("callback-context/"+f.name+"/nil-context/"+cls, where+" was delivered with a nil context"))
									case en.Mid != "mid":
										res = append(res, fw.V("callback-context/"+f.name+"/value-returned-by-callback-lost/"+cls, where+" does not carry the value the callback attached to the context it returned"))
									case ri == 0 && en.Sub != "sub":
										res = append(res, fw.V("callback-context/"+f.name+"/subscription-value-lost/"+cls, where+" does not carry the value attached at SubscribeWithContext"))
									}
									if len(res) > 0 {
										return res
									}
								}
							}
							return res
						}}
					}})
				}
			}
		}})
	}
	return scns
}
