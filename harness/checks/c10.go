package checks

import (
	"fmt"
	"sort"
	"strings"

	"github.com/samber/ro"
	"verif.local/harness/fw"
	"verif.local/harness/h"
	"verif.local/vrt"
)

// C10 - subjects follow their sequential definition and are linearizable.

type subjKind struct {
	name string
	kind string // publish | behavior | replay | async | unicast
	size int    // replay / unicast buffer size (-1 unlimited)
	mk   func() ro.Subject[int]
}

func c10Kinds() []subjKind {
	ks := []subjKind{
		{"publish", "publish", 0, func() ro.Subject[int] { return ro.NewPublishSubject[int]() }},
		{"behavior(0)", "behavior", 0, func() ro.Subject[int] { return ro.NewBehaviorSubject[int](0) }},
		{"async", "async", 0, func() ro.Subject[int] { return ro.NewAsyncSubject[int]() }},
	}
	// replay(0): the boundary buffer size - nothing is replayed (a guard written as `size > 0` instead of
	// `size != unlimited` turns it into an unbounded buffer)
	ks = append(ks, subjKind{"replay(0)", "replay", 0, func() ro.Subject[int] { return ro.NewReplaySubject[int](0) }})
	for _, n := range []int{1, 2, -1} {
		n := n
		ks = append(ks, subjKind{fmt.Sprintf("replay(%d)", n), "replay", n, func() ro.Subject[int] { return ro.NewReplaySubject[int](n) }})
		ks = append(ks, subjKind{fmt.Sprintf("unicast(%d)", n), "unicast", n, func() ro.Subject[int] { return ro.NewUnicastSubject[int](n) }})
	}
	return ks
}

// sop is one subject operation.
type sop struct {
	op  string // N, E, C, S (subscribe), U (unsubscribe), Ucut, Udet (the two halves of U in concurrent histories)
	arg int    // value for N, recorder index for S/U
}

func (o sop) String() string {
	switch o.op {
	case "N":
		return fmt.Sprintf("Next(%d)", o.arg)
	case "E":
		return "Error"
	case "C":
		return "Complete"
	case "S":
		return fmt.Sprintf("Sub%d", o.arg)
	case "U":
		return fmt.Sprintf("Unsub%d", o.arg)
	}
	return o.op + fmt.Sprint(o.arg)
}

func opsString(ops []sop) string {
	var s []string
	for _, o := range ops {
		s = append(s, o.String())
	}
	return strings.Join(s, " ")
}

// subjModel is the sequential definition.
type subjModel struct {
	k        subjKind
	status   int // 0 open, 1 error, 2 complete
	buf      []int
	has      bool // behavior: always; async: a value was published
	attached map[int]bool
	cut      map[int]bool // recorder i has unsubscribed (receives nothing) but may still be attached
	traces   map[int][]h.Ev
}

func newSubjModel(k subjKind, nrec int) *subjModel {
	m := &subjModel{k: k, attached: map[int]bool{}, cut: map[int]bool{}, traces: map[int][]h.Ev{}}
	if k.kind == "behavior" {
		m.buf, m.has = []int{0}, true
	}
	return m
}

func (m *subjModel) deliver(i int, e h.Ev) {
	if m.cut[i] {
		return
	}
	m.traces[i] = append(m.traces[i], e)
}

func (m *subjModel) ids() []int {
	var ids []int
	for i := range m.attached {
		ids = append(ids, i)
	}
	sort.Ints(ids)
	return ids
}

func (m *subjModel) terminalEv() h.Ev {
	if m.status == 3 {
		return h.Co()
	}
	if m.status == 1 {
		return h.Er(h.ErrSrc)
	}
	return h.Co()
}

func (m *subjModel) apply(o sop) {
	switch o.op {
	case "N":
		if m.status != 0 {
			return
		}
		switch m.k.kind {
		case "publish":
			for _, i := range m.ids() {
				m.deliver(i, h.Nx(o.arg))
			}
		case "behavior":
			m.buf = []int{o.arg}
			for _, i := range m.ids() {
				m.deliver(i, h.Nx(o.arg))
			}
		case "replay":
			for _, i := range m.ids() {
				m.deliver(i, h.Nx(o.arg))
			}
			m.buf = append(m.buf, o.arg)
			if m.k.size >= 0 && len(m.buf) > m.k.size {
				m.buf = m.buf[len(m.buf)-m.k.size:]
			}
		case "async":
			m.buf, m.has = []int{o.arg}, true
		case "unicast":
			if ids := m.ids(); len(ids) > 0 {
				m.deliver(ids[0], h.Nx(o.arg))
			} else {
				m.buf = append(m.buf, o.arg)
				if m.k.size >= 0 && len(m.buf) > m.k.size {
					m.buf = m.buf[len(m.buf)-m.k.size:]
				}
			}
		}
	case "E", "C":
		if m.status != 0 {
			return
		}
		if o.op == "E" {
			m.status = 1
		} else {
			m.status = 2
		}
		for _, i := range m.ids() {
			if o.op == "C" && m.k.kind == "async" && m.has {
				m.deliver(i, h.Nx(m.buf[0]))
			}
			m.deliver(i, m.terminalEv())
		}
		m.attached = map[int]bool{}
	case "S":
		i := o.arg
		m.cut[i] = false
		switch m.k.kind {
		case "publish":
		case "behavior":
			if m.status == 0 {
				m.deliver(i, h.Nx(m.buf[0]))
			}
		case "replay":
			for _, v := range m.buf {
				m.deliver(i, h.Nx(v))
			}
		case "async":
			if (m.status == 2 || m.status == 3) && m.has {
				m.deliver(i, h.Nx(m.buf[0]))
			}
		case "unicast":
			if m.status == 0 && len(m.attached) > 0 {
				m.deliver(i, h.Er(ro.ErrUnicastSubjectConcurrent))
				m.cut[i] = true
				return
			}
			for _, v := range m.buf {
				m.deliver(i, h.Nx(v))
			}
			m.buf = nil
		}
		if m.status != 0 {
			m.deliver(i, m.terminalEv())
			m.cut[i] = true
			return
		}
		m.attached[i] = true
	case "U":
		m.cut[o.arg] = true
		delete(m.attached, o.arg)
	case "Cval":
		if m.status == 0 && m.has {
			for _, i := range m.ids() {
				m.deliver(i, h.Nx(m.buf[0]))
			}
		}
		if m.status == 0 {
			m.status = 3 // completing: closed for new values and subscribers see it as completed
		}
	case "Cterm":
		if m.status == 3 {
			m.status = 2
			for _, i := range m.ids() {
				m.deliver(i, h.Co())
			}
			m.attached = map[int]bool{}
		}
	case "Ucut":
		m.cut[o.arg] = true
	case "Udet":
		delete(m.attached, o.arg)
	}
}

// subjImpl drives the real subject.
type subjImpl struct {
	s    ro.Subject[int]
	recs []*h.Rec
	subs []ro.Subscription
}

func newSubjImpl(k subjKind, nrec int, yield bool) *subjImpl {
	im := &subjImpl{s: k.mk(), recs: make([]*h.Rec, nrec), subs: make([]ro.Subscription, nrec)}
	for i := range im.recs {
		im.recs[i] = h.NewRec(fmt.Sprint("r", i))
		im.recs[i].YieldIn = yield
	}
	return im
}

//go:norace
func (im *subjImpl) setSub(i int, s ro.Subscription) { im.subs[i] = s }

//go:norace
func (im *subjImpl) getSub(i int) ro.Subscription { return im.subs[i] }

func (im *subjImpl) apply(o sop) {
	switch o.op {
	case "N":
		im.s.Next(o.arg)
	case "E":
		im.s.Error(h.ErrSrc)
	case "C":
		im.s.Complete()
	case "S":
		im.setSub(o.arg, im.s.Subscribe(h.Observer[int](im.recs[o.arg])))
	case "U":
		if s := im.getSub(o.arg); s != nil {
			s.Unsubscribe()
		}
	}
}

func enabledSeq(m *subjModel, o sop) bool {
	switch o.op {
	case "S":
		return !m.attached[o.arg] // a recorder subscribes again only after it left
	case "U":
		return true
	}
	return true
}

func c10Sequential(tier string) []fw.Scenario {
	depth, nrec := 5, 2
	if tier == "thorough" {
		depth, nrec = 6, 3
	}
	alphabet := []sop{{"N", 1}, {"N", 2}, {"E", 0}, {"C", 0}}
	for i := 0; i < nrec; i++ {
		alphabet = append(alphabet, sop{"S", i}, sop{"U", i})
	}
	var scns []fw.Scenario
	for _, k := range c10Kinds() {
		k := k
		// one scenario per first operation, to spread the work
		for _, first := range alphabet {
			first := first
			scns = append(scns, fw.Scenario{ID: "C10/seq/" + k.name + "/" + first.String(), Group: k.name, Run: func(c *fw.Ctx) {
				states := map[string]bool{}
				var rec func(seq []sop)
				rec = func(seq []sop) {
					c.Explore(c10SeqCase(k, nrec, seq, states))
					if len(seq) >= depth {
						return
					}
					m := newSubjModel(k, nrec)
					for _, o := range seq {
						m.apply(o)
					}
					for _, o := range alphabet {
						if enabledSeq(m, o) {
							rec(append(append([]sop{}, seq...), o))
						}
					}
				}
				rec([]sop{first})
				c.AddStates(int64(len(states)))
			}})
		}
	}
	return scns
}

func modelKey(m *subjModel) string {
	var sb strings.Builder
	fmt.Fprintf(&sb, "%d|%v|%v|%v|", m.status, m.buf, m.has, m.ids())
	var ks []int
	for i := range m.traces {
		ks = append(ks, i)
	}
	sort.Ints(ks)
	for _, i := range ks {
		fmt.Fprintf(&sb, "%d:%s;", i, h.Word(m.traces[i]))
	}
	return sb.String()
}

func c10SeqCase(k subjKind, nrec int, seq []sop, states map[string]bool) fw.Case {
	return fw.Case{Name: opsString(seq), Opts: vrt.Options{Horizon: 20000}, Make: func() fw.Instance {
		var im *subjImpl
		var viol []fw.Violation
		body := func() {
			im = newSubjImpl(k, nrec, false)
			m := newSubjModel(k, nrec)
			for step, o := range seq {
				im.apply(o)
				m.apply(o)
				if len(viol) > 0 {
					continue
				}
				where := fmt.Sprintf("%s after [%s]", k.name, opsString(seq[:step+1]))
				for i := 0; i < nrec; i++ {
					if !h.SameTrace(im.recs[i].Events(), m.traces[i]) {
						viol = append(viol, fw.V("seq/"+k.name+"/trace-vs-definition/"+c10Class(seq[:step+1], im.recs[i].Events(), m.traces[i]),
							fmt.Sprintf("%s: observer %d received [%s]; the sequential definition gives [%s]", where, i, im.recs[i].Trace(), h.Word(m.traces[i]))))
						break
					}
				}
				if got, want := im.s.CountObservers(), len(m.attached); got != want {
					viol = append(viol, fw.V("seq/"+k.name+"/observer-count/"+c10CountClass(got, want), fmt.Sprintf("%s: CountObservers()=%d, definition: %d", where, got, want)))
				}
				if got, want := im.s.HasObserver(), len(m.attached) > 0; got != want {
					viol = append(viol, fw.V("seq/"+k.name+"/has-observer/mismatch", fmt.Sprintf("%s: HasObserver()=%v, definition: %v", where, got, want)))
				}
				if im.s.IsClosed() != (m.status != 0) || im.s.HasThrown() != (m.status == 1) || im.s.IsCompleted() != (m.status == 2) {
					viol = append(viol, fw.V("seq/"+k.name+"/status/mismatch", fmt.Sprintf("%s: IsClosed/HasThrown/IsCompleted = %v/%v/%v, definition status %d", where, im.s.IsClosed(), im.s.HasThrown(), im.s.IsCompleted(), m.status)))
				}
			}
			states[modelKey(m)] = true
		}
		return fw.Instance{Body: body, Outcome: func() string {
			var p []string
			for _, r := range im.recs {
				p = append(p, r.Trace())
			}
			return strings.Join(p, "|")
		}, Check: func(r *vrt.Result) []fw.Violation {
			out := viol
			if len(r.Blocked) > 0 {
				out = append(out, fw.V("seq/"+k.name+"/deadlock/"+blockedSummary(r), "["+opsString(seq)+"] blocks: "+blockedSummary(r)))
			}
			return out
		}}
	}}
}

func c10CountClass(got, want int) string {
	if got > want {
		return "observer-kept"
	}
	return "observer-missing"
}

// c10Class classifies a trace mismatch by the situation that produced it.
func c10Class(seq []sop, got, want []h.Ev) string {
	last := seq[len(seq)-1]
	closedBefore := false
	for _, o := range seq[:len(seq)-1] {
		if o.op == "E" || o.op == "C" {
			closedBefore = true
		}
	}
	cls := diffClass(got, want)
	if last.op == "S" && closedBefore {
		return "subscribe-after-termination-" + cls
	}
	if last.op == "S" {
		return "subscribe-" + cls
	}
	return last.op + "-" + cls
}

// ---------------------------------------------------------------- concurrent histories

type hop struct {
	op       sop
	thread   int
	call, rt uint64
}

type histRec struct {
	ops []hop
}

//go:norace
func (hr *histRec) add(o hop) { hr.ops = append(hr.ops, o) }

// linearizable searches for an order of the operations (Unsubscribe split in cut+detach) that is
// compatible with real-time precedence and per-thread order and reproduces every observer's trace.
func linearizable(k subjKind, nrec int, pre []sop, ops []hop, traces [][]h.Ev) (bool, string) {
	return linearizableOpt(k, nrec, pre, ops, traces, false)
}

// linearizableOpt: with perObserver set, real-time precedence between operations that concern two
// different observers only (Unsubscribe i vs Unsubscribe j / Subscribe j) is not enforced. A history that
// is linearizable only under this relaxation is explained by a broadcast that reaches its observers one
// after the other while an individual Unsubscribe cuts in between (the broadcast is not atomic with
// respect to unsubscriptions of different observers).
func linearizableOpt(k subjKind, nrec int, pre []sop, ops []hop, traces [][]h.Ev, perObserver bool) (bool, string) {
	type event struct {
		o      sop
		opIdx  int
		second bool
	}
	var evs []event
	for i, o := range ops {
		if o.op.op == "U" {
			evs = append(evs, event{sop{"Ucut", o.op.arg}, i, false}, event{sop{"Udet", o.op.arg}, i, true})
		} else if o.op.op == "C" && k.kind == "async" {
			// async completion is two deliveries (final value, then Complete); an Unsubscribe may cut between them
			evs = append(evs, event{sop{"Cval", 0}, i, false}, event{sop{"Cterm", 0}, i, true})
		} else {
			evs = append(evs, event{o.op, i, false})
		}
	}
	n := len(evs)
	used := make([]bool, n)
	order := make([]int, 0, n)
	// must a precede b ?
	before := func(a, b event) bool {
		if a.opIdx == b.opIdx {
			return !a.second && b.second
		}
		oa, ob := ops[a.opIdx], ops[b.opIdx]
		if perObserver && (oa.op.op == "U" || ob.op.op == "U") && (oa.op.op == "U" || oa.op.op == "S") && (ob.op.op == "U" || ob.op.op == "S") && oa.op.arg != ob.op.arg {
			return false
		}
		if oa.rt < ob.call {
			return true
		}
		return false
	}
	var found bool
	var try func()
	try = func() {
		if found {
			return
		}
		if len(order) == n {
			m := newSubjModel(k, nrec)
			for _, o := range pre {
				m.apply(o)
			}
			for _, i := range order {
				m.apply(evs[i].o)
			}
			for r := 0; r < nrec; r++ {
				if !h.SameTrace(traces[r], m.traces[r]) {
					return
				}
			}
			found = true
			return
		}
		for i := 0; i < n; i++ {
			if used[i] {
				continue
			}
			ok := true
			for j := 0; j < n; j++ {
				if !used[j] && j != i && before(evs[j], evs[i]) {
					ok = false
					break
				}
			}
			if !ok {
				continue
			}
			used[i] = true
			order = append(order, i)
			try()
			order = order[:len(order)-1]
			used[i] = false
		}
	}
	try()
	if found {
		return true, ""
	}
	var hs []string
	for _, o := range ops {
		hs = append(hs, fmt.Sprintf("T%d:%s[%d,%d]", o.thread, o.op, o.call, o.rt))
	}
	var ts []string
	for i, t := range traces {
		ts = append(ts, fmt.Sprintf("observer%d=[%s]", i, h.Word(t)))
	}
	return false, fmt.Sprintf("history %s with %s after initial [%s]", strings.Join(hs, " "), strings.Join(ts, " "), opsString(pre))
}

func c10Concurrent(tier string) []fw.Scenario {
	thorough := tier == "thorough"
	bound := 2
	nrec := 2
	threadA := [][]sop{{{"N", 1}}, {{"N", 1}, {"N", 2}}, {{"N", 1}, {"C", 0}}, {{"N", 1}, {"E", 0}}, {{"C", 0}}, {{"E", 0}}}
	threadB := [][]sop{{{"S", 1}}, {{"S", 1}, {"U", 1}}, {{"U", 0}}, {{"U", 0}, {"S", 1}}, {{"N", 7}}, {{"N", 7}, {"C", 0}}, {{"C", 0}}, {{"S", 1}, {"N", 7}}}
	pres := [][]sop{{}, {{"S", 0}}, {{"N", 9}}, {{"N", 9}, {"S", 0}}, {{"N", 8}, {"N", 9}, {"S", 0}}}
	threadC := [][]sop{nil}
	if thorough {
		bound = 3
		nrec = 3 // the third thread subscribes an observer of its own (one recorder is never subscribed twice)
		threadC = [][]sop{nil, {{"S", 2}}, {{"U", 0}}, {{"N", 5}}}
	}
	var scns []fw.Scenario
	memo := map[string]string{}
	for _, k := range c10Kinds() {
		k := k
		for pi, pre := range pres {
			pre := pre
			scns = append(scns, fw.Scenario{ID: fmt.Sprintf("C10/conc/%s/pre%d", k.name, pi), Group: k.name, Run: func(c *fw.Ctx) {
				for _, ta := range threadA {
					for _, tb := range threadB {
						for _, tc := range threadC {
							ta, tb, tc := ta, tb, tc
							b := bound
							if tc != nil {
								b = bound - 1
							}
							name := fmt.Sprintf("A[%s] B[%s]", opsString(ta), opsString(tb))
							if tc != nil {
								name += fmt.Sprintf(" C[%s]", opsString(tc))
							}
							c.Explore(fw.Case{Name: name, Bound: b, Sample: true, Make: func() fw.Instance {
								var im *subjImpl
								hist := &histRec{}
								body := func() {
									im = newSubjImpl(k, nrec, true)
									for _, o := range pre {
										im.apply(o)
									}
									runT := func(id int, ops []sop) func() {
										return func() {
											for _, o := range ops {
												call := vrt.Tick()
												im.apply(o)
												hist.add(hop{op: o, thread: id, call: call, rt: vrt.Tick()})
											}
										}
									}
									vrt.GoNamed("A", runT(1, ta))
									vrt.GoNamed("B", runT(2, tb))
									if tc != nil {
										vrt.GoNamed("C", runT(3, tc))
									}
								}
								return fw.Instance{Body: body, Outcome: func() string {
									var ts []string
									for _, rc := range im.recs {
										ts = append(ts, rc.Trace())
									}
									return strings.Join(ts, "|")
								}, Nontrivial: func(r *vrt.Result) bool { return r.Switches > 2 }, Check: func(r *vrt.Result) []fw.Violation {
									var out []fw.Violation
									if len(r.Blocked) > 0 {
										return []fw.Violation{fw.V("concurrent/"+k.name+"/deadlock/"+blockedSummary(r), name+": "+blockedSummary(r))}
									}
									var traces [][]h.Ev
									for _, rc := range im.recs {
										traces = append(traces, rc.Events())
									}
									for i, t := range traces {
										if g := h.GrammarError(t); g != "" && !resubscribed(pre, ta, tb, tc, i) {
											out = append(out, fw.V("concurrent/"+k.name+"/grammar/"+grammarClass(t), name+": observer "+fmt.Sprint(i)+": "+g))
										}
									}
									// all subscribers see the same order
									for i := range traces {
										for j := i + 1; j < len(traces); j++ {
											if msg := orderDisagreement(traces[i], traces[j]); msg != "" {
												out = append(out, fw.V("concurrent/"+k.name+"/order-disagreement/values", name+": "+msg))
											}
										}
									}
									key := k.name + "|" + fmt.Sprint(pre) + "|" + histKey(hist.ops)
									for _, t := range traces {
										key += "|" + h.Word(t)
									}
									msg, ok := memo[key]
									if !ok {
										lin, m := linearizable(k, nrec, pre, hist.ops, traces)
										if lin {
											m = ""
										} else if weak, _ := linearizableOpt(k, nrec, pre, hist.ops, traces, true); weak {
											m = "PER-OBSERVER " + m
										}
										msg = m
										memo[key] = msg
									}
									if strings.HasPrefix(msg, "PER-OBSERVER ") {
										out = append(out, fw.V("concurrent/"+k.name+"/broadcast-not-atomic-across-observers/unsubscribe-order", "linearizable only if the real-time order between operations on different observers is ignored: "+strings.TrimPrefix(msg, "PER-OBSERVER ")))
									} else if msg != "" {
										out = append(out, fw.V("concurrent/"+k.name+"/not-linearizable/"+linClass(ta, tb, tc), msg))
									}
									return out
								}}
							}})
						}
					}
				}
			}})
		}
	}
	return scns
}

func resubscribed(pre []sop, ta, tb, tc []sop, i int) bool {
	n := 0
	for _, l := range [][]sop{pre, ta, tb, tc} {
		for _, o := range l {
			if o.op == "S" && o.arg == i {
				n++
			}
		}
	}
	return n > 1
}

func linClass(ts ...[]sop) string {
	seen := map[string]bool{}
	for _, t := range ts {
		for _, o := range t {
			seen[o.op] = true
		}
	}
	var parts []string
	for k := range seen {
		parts = append(parts, k)
	}
	sort.Strings(parts)
	return "ops-" + strings.Join(parts, "")
}

// histKey encodes the precedence structure of a history (not the raw ticks).
func histKey(ops []hop) string {
	var sb strings.Builder
	for i, a := range ops {
		fmt.Fprintf(&sb, "%d:%s:", a.thread, a.op)
		for j, b := range ops {
			if i != j && a.rt < b.call {
				fmt.Fprintf(&sb, "%d,", j)
			}
		}
		sb.WriteByte(';')
	}
	return sb.String()
}

// orderDisagreement: any two observers agree on the relative order of the values they have in common.
func orderDisagreement(a, b []h.Ev) string {
	pos := map[interface{}]int{}
	for i, e := range a {
		if e.K == h.N {
			pos[e.V] = i
		}
	}
	last := -1
	var lastV interface{}
	for _, e := range b {
		if e.K != h.N {
			continue
		}
		if p, ok := pos[e.V]; ok {
			if p < last {
				return fmt.Sprintf("observer 0 saw %v before %v, observer 1 saw them the other way round ([%s] vs [%s])", e.V, lastV, h.Word(a), h.Word(b))
			}
			last, lastV = p, e.V
		}
	}
	return ""
}

func init() {
	Registry["C10"] = func(tier string) []fw.Scenario {
		return append(c10Sequential(tier), c10Concurrent(tier)...)
	}
}
