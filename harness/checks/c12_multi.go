package checks

import (
	"fmt"
	"strings"

	"github.com/samber/ro"
	"verif.local/harness/fw"
	"verif.local/harness/h"
	"verif.local/vrt"
)

// ---------------------------------------------------------------- C12: multi-source operators
//
// The catalogue rows are single-source operators; the combining operators (Merge*, Concat*, CombineLatest*,
// Zip*, Race*/Amb, TakeUntil, ...) live in C05's list with their arrival-order models. Two families reuse
// that list for C12:
//
//  c12MultiTwice      ONE observable value over hot sources, TWO subscriptions alive at the same time; the
//                     arrivals are then pushed one by one, and (optionally) the first subscription is
//                     unsubscribed in front of arrival #cut. Subscription b must receive what the definition
//                     gives for the whole arrival order, subscription a what it gives for the prefix, and every
//                     source must end up with exactly the subscriptions the definition leaves open (state kept
//                     per operator application instead of per subscription makes the two trample each other).
//  c12VariadicShared  every variadic constructor / operator called twice with the SAME argument slice, which has
//                     spare capacity and sentinels behind its length: both results must behave like one built
//                     from fresh literal arguments, and the slice (sentinels included) must be untouched.

func c12MultiTwice(op msOp, as []arrival, cut int) fw.Case {
	nm := fmt.Sprintf("two-live-subscriptions:%s", arrString(as))
	if cut >= 0 {
		nm += fmt.Sprintf("/first-unsubscribed-before-#%d", cut)
	}
	return fw.Case{Name: nm, Opts: vrt.Options{Horizon: 50000}, Make: func() fw.Instance {
		set := &recSet{}
		ra, rb := h.NewRec("a"), h.NewRec("b")
		set.add(ra)
		srcs := make([]*h.Src, op.k)
		var escaped string
		var subA ro.Subscription
		cutDone := false
		body := func() {
			obs := make([]ro.Observable[int], op.k)
			push := make([]*h.Push[int], op.k)
			for i := range obs {
				srcs[i] = h.NewSrc(fmt.Sprintf("%c", 'a'+i))
				obs[i], push[i] = h.Pushed[int](srcs[i], h.Unsafe)
			}
			curLate = nil
			alsoSub, alsoSubscription = rb, nil
			vrt.GoNamed("subscribe", func() {
				guard(&escaped, "Subscribe", func() { subA = op.build(obs, set, ra) })
			})
			vrt.Settle()
			alsoSub = nil
			guard(&escaped, "Next", func() {
				for i, a := range as {
					if i == cut && subA != nil {
						subA.Unsubscribe()
						cutDone = true
						vrt.Settle()
					}
					push[a.src].Emit(a.e)
					vrt.Settle()
				}
			})
		}
		return fw.Instance{Body: body, Outcome: func() string { return ra.Trace() + " | " + rb.Trace() }, Check: func(r *vrt.Result) []fw.Violation {
			var res []fw.Violation
			where := fmt.Sprintf("%s, one observable subscribed twice, arrival order [%s]", op.name, arrString(as))
			if escaped != "" {
				return []fw.Violation{fw.V("multi/"+op.name+"/panic/escaped", where+": "+escaped)}
			}
			if r.HorizonHit {
				return nil
			}
			mb := runModel(op, as)
			ma := mb
			if cutDone {
				ma = runModel(op, as[:cut])
				where += fmt.Sprintf(", subscription a unsubscribed before arrival #%d", cut)
			} else if cut >= 0 {
				return nil // Subscribe of a had not returned (operator waiting inside Subscribe): nothing to cut
			}
			if !h.SameTrace(rb.Events(), mb.out) {
				res = append(res, fw.V("multi/"+op.name+"/second-live-subscription-differs/"+diffClass(rb.Events(), mb.out),
					fmt.Sprintf("%s: subscription b received [%s]; the definition gives [%s]", where, rb.Trace(), h.Word(mb.out))))
			}
			if !h.SameTrace(ra.Events(), ma.out) {
				res = append(res, fw.V("multi/"+op.name+"/first-live-subscription-differs/"+diffClass(ra.Events(), ma.out),
					fmt.Sprintf("%s: subscription a received [%s]; the definition gives [%s]", where, ra.Trace(), h.Word(ma.out))))
			}
			if len(res) > 0 || len(r.Blocked) > 1 {
				return res
			}
			for i, s := range srcs {
				_, _, live, _ := s.Get()
				want := 0
				if mb.sub[i] {
					want++
				}
				if !cutDone && ma.sub[i] {
					want++
				}
				if live != want {
					cls := "source-not-released"
					if live < want {
						cls = "source-released-early"
					}
					res = append(res, fw.V("multi/"+op.name+"/source-release/"+cls, fmt.Sprintf("%s: source %c has %d live subscriptions, the definition says %d", where, 'a'+i, live, want)))
					break
				}
			}
			return res
		}}
	}}
}

func c12Multi(tier string) []fw.Scenario {
	maxVals := 1
	if tier == "thorough" {
		maxVals = 2
	}
	alph := [][]interface{}{{1, 2}, {7, 8}, {5}}
	var scns []fw.Scenario
	for _, op := range c05Ops() {
		op := op
		if op.late || op.k == 1 || strings.HasPrefix(op.name, "WindowWhen") {
			continue // inner observables are C05's; single-source operators are catalogue rows
		}
		var tuples [][][]h.Ev
		var build func(i int, cur [][]h.Ev)
		build = func(i int, cur [][]h.Ev) {
			if i == op.k {
				tuples = append(tuples, append([][]h.Ev{}, cur...))
				return
			}
			al := alph[i][:1]
			if op.k == 2 && tier == "thorough" {
				al = alph[i]
			}
			for _, w := range c05Scripts(al, maxVals) {
				build(i+1, append(cur, w))
			}
		}
		build(0, nil)
		scns = append(scns, fw.Scenario{ID: "C12/multi/" + op.name, Group: "multi-source", Run: func(c *fw.Ctx) {
			for _, words := range tuples {
				for _, as := range shuffles(words) {
					for cut := -1; cut < len(as); cut++ {
						c.Explore(c12MultiTwice(op, as, cut))
					}
				}
			}
		}})
	}
	scns = append(scns, c12VariadicShared()...)
	return scns
}

// ---------------------------------------------------------------- shared argument slices

type variadicForm struct {
	name string
	// run builds the thing from (args, ints) twice where that makes sense and subscribes the recorders; with
	// fresh=true it must use literal arguments of its own instead of the shared slices
	run func(obsArgs []ro.Observable[int], intArgs []int, x ro.Observable[int], rec *h.Rec)
}

func c12VariadicShared() []fw.Scenario {
	just := func(v ...int) ro.Observable[int] { return ro.Just(v...) }
	str := func(o ro.Observable[[]int], rec *h.Rec) {
		sub(ro.Map(func(v []int) string { return fmt.Sprint(v) })(o), rec)
	}
	anyStr := func(o ro.Observable[[]any], rec *h.Rec) {
		sub(ro.Map(func(v []any) string { return fmt.Sprint(v) })(o), rec)
	}
	forms := []variadicForm{
		{"RaceWith", func(a []ro.Observable[int], _ []int, x ro.Observable[int], rec *h.Rec) { sub(ro.RaceWith(a...)(x), rec) }},
		{"MergeWith", func(a []ro.Observable[int], _ []int, x ro.Observable[int], rec *h.Rec) { sub(ro.MergeWith(a...)(x), rec) }},
		{"ConcatWith", func(a []ro.Observable[int], _ []int, x ro.Observable[int], rec *h.Rec) { sub(ro.ConcatWith(a...)(x), rec) }},
		{"OnErrorResumeNextWith", func(a []ro.Observable[int], _ []int, x ro.Observable[int], rec *h.Rec) {
			sub(ro.OnErrorResumeNextWith(a...)(x), rec)
		}},
		{"Race", func(a []ro.Observable[int], _ []int, _ ro.Observable[int], rec *h.Rec) { sub(ro.Race(a...), rec) }},
		{"Amb", func(a []ro.Observable[int], _ []int, _ ro.Observable[int], rec *h.Rec) { sub(ro.Amb(a...), rec) }},
		{"Merge", func(a []ro.Observable[int], _ []int, _ ro.Observable[int], rec *h.Rec) { sub(ro.Merge(a...), rec) }},
		{"Concat", func(a []ro.Observable[int], _ []int, _ ro.Observable[int], rec *h.Rec) { sub(ro.Concat(a...), rec) }},
		{"Zip", func(a []ro.Observable[int], _ []int, _ ro.Observable[int], rec *h.Rec) { str(ro.Zip(a...), rec) }},
		{"CombineLatestAny", func(a []ro.Observable[int], _ []int, _ ro.Observable[int], rec *h.Rec) {
			as := make([]ro.Observable[any], 0, len(a)+3)
			for _, o := range a {
				as = append(as, ro.Map(func(v int) any { return v })(o))
			}
			anyStr(ro.CombineLatestAny(as...), rec)
		}},
		{"StartWith", func(_ []ro.Observable[int], v []int, x ro.Observable[int], rec *h.Rec) { sub(ro.StartWith(v...)(x), rec) }},
		{"EndWith", func(_ []ro.Observable[int], v []int, x ro.Observable[int], rec *h.Rec) { sub(ro.EndWith(v...)(x), rec) }},
		{"Just", func(_ []ro.Observable[int], v []int, _ ro.Observable[int], rec *h.Rec) { sub(ro.Just(v...), rec) }},
		{"Of", func(_ []ro.Observable[int], v []int, _ ro.Observable[int], rec *h.Rec) { sub(ro.Of(v...), rec) }},
		{"FromSlice", func(_ []ro.Observable[int], v []int, _ ro.Observable[int], rec *h.Rec) {
			ss := make([][]int, 0, 5)
			ss = append(ss, v, v[:1])
			sub(ro.FromSlice(ss...), rec)
		}},
	}
	var scns []fw.Scenario
	for _, f := range forms {
		f := f
		scns = append(scns, fw.Scenario{ID: "C12/shared-arguments/" + f.name, Group: "multi-source", Run: func(c *fw.Ctx) {
			for _, n := range []int{1, 2, 3} {
				for _, order := range [][2]int{{0, 1}, {1, 0}} {
					n, order := n, order
					c.Explore(fw.Case{Name: fmt.Sprintf("%d arguments, spare capacity, subscribed in order %v", n, order), Opts: vrt.Options{Horizon: 50000}, Make: func() fw.Instance {
						recs := [2]*h.Rec{h.NewRec("p0"), h.NewRec("p1")}
						fresh := [2]*h.Rec{h.NewRec("fresh0"), h.NewRec("fresh1")}
						touched := ""
						body := func() {
							mkArgs := func() ([]ro.Observable[int], []ro.Observable[int], []int, []int) {
								fullO := make([]ro.Observable[int], n+3)
								fullI := make([]int, n+3)
								for i := range fullO {
									fullO[i], fullI[i] = just(80+i), 80+i
								}
								return fullO, fullO[:n], fullI, fullI[:n]
							}
							fullO, argsO, fullI, argsI := mkArgs()
							keepO := append([]ro.Observable[int]{}, fullO...)
							keepI := append([]int{}, fullI...)
							xs := [2]ro.Observable[int]{just(1), just(2)}
							// two uses of the shared slices, both built BEFORE either is subscribed, then the
							// subscriptions in the given order
							built := [2]func(){}
							for i := 0; i < 2; i++ {
								i := i
								rec := recs[i]
								built[i] = captureBuild(f, argsO, argsI, xs[i], rec)
							}
							for _, i := range order {
								built[i]()
							}
							for i := range fullO {
								if fullO[i] != keepO[i] || fullI[i] != keepI[i] {
									touched = fmt.Sprintf("element %d of the caller's argument array (length %d, capacity %d) was rewritten", i, n, n+3)
									break
								}
							}
							for i := 0; i < 2; i++ {
								_, fo, _, fi := mkArgs()
								f.run(append([]ro.Observable[int]{}, fo...), append([]int{}, fi...), just(1+i), fresh[i])
							}
						}
						return fw.Instance{Body: body, Outcome: func() string { return recs[0].Trace() + "|" + recs[1].Trace() }, Check: func(r *vrt.Result) []fw.Violation {
							if len(r.Blocked) > 0 || r.HorizonHit {
								return nil
							}
							var out []fw.Violation
							if touched != "" {
								out = append(out, fw.V("shared-arguments/"+f.name+"/caller-slice-rewritten/in-place", f.name+": "+touched))
							}
							for i := range recs {
								if !h.SameTrace(recs[i].Events(), fresh[i].Events()) {
									out = append(out, fw.V("shared-arguments/"+f.name+"/second-use-of-the-argument-slice-differs/"+diffClass(recs[i].Events(), fresh[i].Events()),
										fmt.Sprintf("%s called twice with one argument slice (length %d, spare capacity): use #%d delivered [%s]; built from fresh arguments it delivers [%s]", f.name, n, i, recs[i].Trace(), fresh[i].Trace())))
									break
								}
							}
							return out
						}}
					}})
				}
			}
		}})
	}
	return scns
}

// captureBuild runs the constructing part of a form now and returns the subscribing part: the forms
// subscribe through sub(), which is intercepted here so that both pipelines exist before either runs.
func captureBuild(f variadicForm, a []ro.Observable[int], v []int, x ro.Observable[int], rec *h.Rec) func() {
	var later func()
	deferSub = func(run func()) { later = run }
	f.run(a, v, x, rec)
	deferSub = nil
	if later == nil {
		return func() {}
	}
	return later
}
