package checks

import "verif.local/harness/fw"

// Concurrent / special parts that are filled in by their own files.
func c01Concurrent(tier string) []fw.Scenario { return nil }
func c03Races(tier string) []fw.Scenario      { return nil }
func c08HandOff(tier string) []fw.Scenario    { return nil }
func c09Extra(tier string) []fw.Scenario      { return nil }
func c12Concurrent(tier string) []fw.Scenario { return nil }
