package checks

import (
	"fmt"
	"strings"

	"github.com/samber/lo"
	"github.com/samber/ro"
	"verif.local/harness/fw"
	"verif.local/harness/h"
	"verif.local/vrt"
)

// Higher arities of the fixed-arity families (Zip4..6 / ZipWith3..5, CombineLatest4..5 / CombineLatestWith3..4,
// MergeWith3..5): differential check against the variadic member of the same family (which the reference
// model covers at arity 2), over every arrival order of a small block structure. Each source emits two values
// and completes (one designated source may fail instead); two designated sources are split into the blocks
// [v1] and [v2 end], the others arrive as one block: all interleavings of the blocks.

type arityOp struct {
	name string
	k    int
	mk   func(s []ro.Observable[int]) ro.Observable[[]int] // fixed-arity member
	ref  func(s []ro.Observable[int]) ro.Observable[[]int] // variadic member
}

func t4(t lo.Tuple4[int, int, int, int]) []int           { return []int{t.A, t.B, t.C, t.D} }
func t5(t lo.Tuple5[int, int, int, int, int]) []int      { return []int{t.A, t.B, t.C, t.D, t.E} }
func t6(t lo.Tuple6[int, int, int, int, int, int]) []int { return []int{t.A, t.B, t.C, t.D, t.E, t.F} }
func one(v int) []int                                    { return []int{v} }

func arityOps() []arityOp {
	zipRef := func(s []ro.Observable[int]) ro.Observable[[]int] { return ro.Zip(s...) }
	clRef := func(s []ro.Observable[int]) ro.Observable[[]int] {
		return ro.CombineLatestAll[int]()(ro.Just(s...))
	}
	mergeRef := func(s []ro.Observable[int]) ro.Observable[[]int] { return ro.Map(one)(ro.Merge(s...)) }
	return []arityOp{
		{"Zip4", 4, func(s []ro.Observable[int]) ro.Observable[[]int] { return ro.Map(t4)(ro.Zip4(s[0], s[1], s[2], s[3])) }, zipRef},
		{"ZipWith3", 4, func(s []ro.Observable[int]) ro.Observable[[]int] {
			return ro.Map(t4)(ro.ZipWith3[int](s[1], s[2], s[3])(s[0]))
		}, zipRef},
		{"Zip5", 5, func(s []ro.Observable[int]) ro.Observable[[]int] {
			return ro.Map(t5)(ro.Zip5(s[0], s[1], s[2], s[3], s[4]))
		}, zipRef},
		{"ZipWith4", 5, func(s []ro.Observable[int]) ro.Observable[[]int] {
			return ro.Map(t5)(ro.ZipWith4[int](s[1], s[2], s[3], s[4])(s[0]))
		}, zipRef},
		{"Zip6", 6, func(s []ro.Observable[int]) ro.Observable[[]int] {
			return ro.Map(t6)(ro.Zip6(s[0], s[1], s[2], s[3], s[4], s[5]))
		}, zipRef},
		{"ZipWith5", 6, func(s []ro.Observable[int]) ro.Observable[[]int] {
			return ro.Map(t6)(ro.ZipWith5[int](s[1], s[2], s[3], s[4], s[5])(s[0]))
		}, zipRef},
		{"CombineLatest4", 4, func(s []ro.Observable[int]) ro.Observable[[]int] {
			return ro.Map(t4)(ro.CombineLatest4(s[0], s[1], s[2], s[3]))
		}, clRef},
		{"CombineLatestWith3", 4, func(s []ro.Observable[int]) ro.Observable[[]int] {
			return ro.Map(t4)(ro.CombineLatestWith3[int](s[1], s[2], s[3])(s[0]))
		}, clRef},
		{"CombineLatest5", 5, func(s []ro.Observable[int]) ro.Observable[[]int] {
			return ro.Map(t5)(ro.CombineLatest5(s[0], s[1], s[2], s[3], s[4]))
		}, clRef},
		{"CombineLatestWith4", 5, func(s []ro.Observable[int]) ro.Observable[[]int] {
			return ro.Map(t5)(ro.CombineLatestWith4[int](s[1], s[2], s[3], s[4])(s[0]))
		}, clRef},
		{"MergeWith3", 4, func(s []ro.Observable[int]) ro.Observable[[]int] {
			return ro.Map(one)(ro.MergeWith3(s[1], s[2], s[3])(s[0]))
		}, mergeRef},
		{"MergeWith4", 5, func(s []ro.Observable[int]) ro.Observable[[]int] {
			return ro.Map(one)(ro.MergeWith4(s[1], s[2], s[3], s[4])(s[0]))
		}, mergeRef},
		{"MergeWith5", 6, func(s []ro.Observable[int]) ro.Observable[[]int] {
			return ro.Map(one)(ro.MergeWith5(s[1], s[2], s[3], s[4], s[5])(s[0]))
		}, mergeRef},
	}
}

// block is a run of notifications of one source.
type arityBlock struct {
	src int
	evs []h.Ev
}

// arityOrders: all interleavings of the blocks that keep each source's blocks in order.
func arityOrders(perSrc [][]arityBlock, f func([]arityBlock)) {
	pos := make([]int, len(perSrc))
	var cur []arityBlock
	var rec func()
	rec = func() {
		done := true
		for s := range perSrc {
			if pos[s] < len(perSrc[s]) {
				done = false
				cur = append(cur, perSrc[s][pos[s]])
				pos[s]++
				rec()
				pos[s]--
				cur = cur[:len(cur)-1]
			}
		}
		if done {
			f(append([]arityBlock{}, cur...))
		}
	}
	rec()
}

func arityCase(op arityOp, order []arityBlock, name string) fw.Case {
	return fw.Case{Name: name, Opts: vrt.Options{Horizon: 60000}, Make: func() fw.Instance {
		got, want := h.NewRec("fixed-arity"), h.NewRec("variadic")
		var srcsA, srcsB []*h.Src
		var escaped string
		body := func() {
			run := func(build func([]ro.Observable[int]) ro.Observable[[]int], rec *h.Rec, keep *[]*h.Src) {
				obs := make([]ro.Observable[int], op.k)
				push := make([]*h.Push[int], op.k)
				for i := range obs {
					sc := h.NewSrc(fmt.Sprintf("%c", 'a'+i))
					*keep = append(*keep, sc)
					obs[i], push[i] = h.Pushed[int](sc, h.Unsafe)
				}
				guard(&escaped, "Subscribe", func() { sub(build(obs), rec) })
				guard(&escaped, "Next", func() {
					for _, b := range order {
						for _, e := range b.evs {
							push[b.src].Emit(e)
						}
					}
				})
			}
			run(op.mk, got, &srcsA)
			run(op.ref, want, &srcsB)
		}
		return fw.Instance{Body: body, Outcome: got.Trace, Check: func(r *vrt.Result) []fw.Violation {
			var out []fw.Violation
			sig := "arity/" + op.name
			if escaped != "" {
				out = append(out, fw.V(sig+"/panic/escaped", name+": "+escaped))
			}
			if len(r.Blocked) > 0 {
				out = append(out, fw.V(sig+"/blocked/"+blockedSummary(r), name+": "+blockedSummary(r)))
				return out
			}
			if got.Trace() != want.Trace() {
				out = append(out, fw.V(sig+"/differs-from-variadic-member/"+diffClass(got.Events(), want.Events()), fmt.Sprintf("%s, arrival order %s: delivered [%s]; the variadic member of the family delivers [%s]", op.name, name, got.Trace(), want.Trace())))
			}
			for i := range srcsA {
				_, _, la, _ := srcsA[i].Get()
				_, _, lb, _ := srcsB[i].Get()
				if la != lb {
					out = append(out, fw.V(sig+"/source-release-differs/live", fmt.Sprintf("%s, arrival order %s: source %c live=%d, with the variadic member %d", op.name, name, 'a'+i, la, lb)))
					break
				}
			}
			return out
		}}
	}}
}

func c05Arity(tier string) []fw.Scenario {
	var scns []fw.Scenario
	for _, op := range arityOps() {
		op := op
		for failing := -1; failing < op.k; failing++ {
			if tier != "thorough" && failing > 0 && failing < op.k-1 {
				continue // quick: no failing source, the first and the last one
			}
			for i := 0; i < op.k; i++ {
				for j := i + 1; j < op.k; j++ {
					if op.k == 4 && !(i == 0 && j == 1) {
						continue // arity 4: every source is split, one pass
					}
					i, j, failing := i, j, failing
					scns = append(scns, fw.Scenario{ID: fmt.Sprintf("C05/arity/%s/fail%d/split%d-%d", op.name, failing, i, j), Group: op.name, Run: func(c *fw.Ctx) {
						perSrc := make([][]arityBlock, op.k)
						for s := 0; s < op.k; s++ {
							end := h.Co()
							if s == failing {
								end = h.Er(h.ErrSrc)
							}
							v1, v2 := h.Nx(10*(s+1)+1), h.Nx(10*(s+1)+2)
							if op.k == 4 || s == i || s == j {
								perSrc[s] = []arityBlock{{s, []h.Ev{v1}}, {s, []h.Ev{v2, end}}}
							} else {
								perSrc[s] = []arityBlock{{s, []h.Ev{v1, v2, end}}}
							}
						}
						arityOrders(perSrc, func(order []arityBlock) {
							var nm []string
							for _, b := range order {
								nm = append(nm, fmt.Sprintf("%c:%s", 'a'+b.src, h.Word(b.evs)))
							}
							c.Explore(arityCase(op, order, strings.Join(nm, " ")))
						})
					}})
				}
			}
		}
	}
	return scns
}
