// Package checks holds one driver per property.
package checks

import (
	"context"
	"fmt"
	"time"

	"github.com/samber/lo"
	"sort"
	"strings"

	"github.com/samber/ro"
	"verif.local/harness/fw"
	"verif.local/harness/h"
	"verif.local/vrt"
)

// Registry maps a property id to its scenario builder.
var Registry = map[string]func(tier string) []fw.Scenario{}

func sub[T any](o ro.Observable[T], rec *h.Rec) ro.Subscription {
	if d := deferSub; d != nil {
		d(func() { subOne(o, rec) }) // C12 shared-arguments: build now, subscribe later
		return nil
	}
	if r2 := alsoSub; r2 != nil {
		// C12's "two live subscriptions of one multi-source observable": the second recorder is subscribed
		// to the very same observable value, on its own thread (some operators wait inside Subscribe)
		alsoSub = nil
		vrt.GoNamed("subscribe2", func() { setAlsoSubscription(subOne(o, r2)) })
	}
	return subOne(o, rec)
}

func subOne[T any](o ro.Observable[T], rec *h.Rec) ro.Subscription {
	if takeOne {
		o = ro.Take[T](1)(o) // C14 multi-source family: the downstream ends at the first value
	}
	if rec.Raw {
		return o.SubscribeWithContext(ctxWith(), h.RawObserver[T](rec))
	}
	return o.SubscribeWithContext(ctxWith(), h.Observer[T](rec))
}

var (
	alsoSub          *h.Rec
	alsoSubscription ro.Subscription
	deferSub         func(run func())
	takeOne          bool
)

//go:norace
func setAlsoSubscription(s ro.Subscription) { alsoSubscription = s }

// recSet holds the recorders of one execution (the outer one first, then inner windows/groups).
type recSet struct {
	recs []*h.Rec
}

//go:norace
func (s *recSet) add(r *h.Rec) { s.recs = append(s.recs, r) }

//go:norace
func (s *recSet) all() []*h.Rec { return s.recs }

func (s *recSet) outcome() string {
	var parts []string
	for _, r := range s.all() {
		parts = append(parts, r.Name+":"+r.Trace())
	}
	return strings.Join(parts, " | ")
}

// innerHook subscribes a fresh recorder to every inner observable delivered to the outer recorder.
func innerHook[T any](set *recSet, yield bool) func(r *h.Rec, idx int, e h.Ev) {
	return func(r *h.Rec, idx int, e h.Ev) {
		if e.K != h.N {
			return
		}
		inner, ok := e.V.(ro.Observable[T])
		if !ok {
			return
		}
		ir := h.NewRec(fmt.Sprintf("inner%d", len(set.all())))
		ir.YieldIn = yield
		set.add(ir)
		inner.Subscribe(h.Observer[T](ir))
	}
}

func play[T any](p *h.Push[T], word []h.Ev) {
	for _, e := range word {
		p.Emit(e)
	}
}

func blockedSummary(r *vrt.Result) string {
	var s []string
	for _, b := range r.Blocked {
		s = append(s, fmt.Sprintf("%s(%s)", b.Name, b.Op))
	}
	sort.Strings(s)
	return strings.Join(s, ",")
}

func ints(vs ...int) []h.Ev {
	var w []h.Ev
	for _, v := range vs {
		w = append(w, h.Nx(v))
	}
	return w
}

func wordC(vs ...int) []h.Ev { return append(ints(vs...), h.Co()) }
func wordE(vs ...int) []h.Ev { return append(ints(vs...), h.Er(h.ErrSrc)) }

type ctxT = context.Context

func tapAdd(r *h.Rec, e h.Ev) { r.Add(e) }

type tup2T = lo.Tuple2[int, int]
type tup2T64 = lo.Tuple2[int, int64]
type timeDur = time.Duration

func nil2bg() context.Context { return context.Background() }

func ctxWith() context.Context { return context.WithValue(context.Background(), h.KeySub, "sub") }
