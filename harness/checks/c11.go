package checks

import (
	"fmt"
	"sort"
	"strings"

	"github.com/samber/ro"
	"verif.local/harness/fw"
	"verif.local/harness/h"
	"verif.local/vrt"
)

// C11 - Share / connectable observables: one upstream subscription, reference counting, reset options.

type connKind struct {
	name string
	k    subjKind
}

func c11Connectors() []connKind {
	return []connKind{
		{"publish", subjKind{"publish", "publish", 0, func() ro.Subject[int] { return ro.NewPublishSubject[int]() }}},
		{"behavior(0)", subjKind{"behavior(0)", "behavior", 0, func() ro.Subject[int] { return ro.NewBehaviorSubject[int](0) }}},
		{"replay(1)", subjKind{"replay(1)", "replay", 1, func() ro.Subject[int] { return ro.NewReplaySubject[int](1) }}},
		{"replay(2)", subjKind{"replay(2)", "replay", 2, func() ro.Subject[int] { return ro.NewReplaySubject[int](2) }}},
		{"replay(0)", subjKind{"replay(0)", "replay", 0, func() ro.Subject[int] { return ro.NewReplaySubject[int](0) }}},
	}
}

// event alphabet: S i, U i, N v, E, C, K (connect), D (disconnect)
type shareCfg struct {
	name                           string
	conn                           connKind
	resetErr, resetComp, resetZero bool
	preset                         string // "", "Share", "ShareReplay(2)"
}

func (c shareCfg) build(src ro.Observable[int]) ro.Observable[int] {
	switch c.preset {
	case "Share":
		return ro.Share[int]()(src)
	case "ShareReplay(2)":
		return ro.ShareReplay[int](2)(src)
	case "ShareReplayWithConfig(1,zero)":
		return ro.ShareReplayWithConfig[int](1, ro.ShareReplayConfig{ResetOnRefCountZero: true})(src)
	}
	return ro.ShareWithConfig(ro.ShareConfig[int]{Connector: c.conn.k.mk, ResetOnError: c.resetErr, ResetOnComplete: c.resetComp, ResetOnRefCountZero: c.resetZero})(src)
}

func shareConfigs() []shareCfg {
	var out []shareCfg
	for _, cn := range c11Connectors() {
		for m := 0; m < 8; m++ {
			c := shareCfg{conn: cn, resetErr: m&1 != 0, resetComp: m&2 != 0, resetZero: m&4 != 0}
			c.name = fmt.Sprintf("ShareWithConfig(%s,err=%v,comp=%v,zero=%v)", cn.name, c.resetErr, c.resetComp, c.resetZero)
			out = append(out, c)
		}
	}
	cs := c11Connectors()
	out = append(out,
		shareCfg{name: "Share()", conn: cs[0], resetErr: true, resetComp: true, resetZero: true, preset: "Share"},
		shareCfg{name: "ShareReplay(2)", conn: cs[3], resetErr: true, preset: "ShareReplay(2)"},
		shareCfg{name: "ShareReplayWithConfig(1,zero)", conn: cs[2], resetErr: true, resetZero: true, preset: "ShareReplayWithConfig(1,zero)"},
	)
	return out
}

// execution is one run of the source feeding one connector subject.
type shareExec struct {
	subj    *subjModel
	srcLive bool
}

type shareModel struct {
	cfg      shareCfg
	nrec     int
	cur      *shareExec
	execs    []*shareExec
	of       map[int]*shareExec // observer -> execution it is attached to
	refCount int
	resetE   bool // hasBeenResetOnError (flag meaning "ended by error without reset")
	resetC   bool
	srcSubs  int
	traces   map[int][]h.Ev
	base     map[int]int // offset of each observer's trace inside its subject model trace
	live     map[int]bool
}

func newShareModel(cfg shareCfg, nrec int) *shareModel {
	return &shareModel{cfg: cfg, nrec: nrec, of: map[int]*shareExec{}, traces: map[int][]h.Ev{}, base: map[int]int{}, live: map[int]bool{}}
}

func (m *shareModel) liveSources() int {
	n := 0
	for _, e := range m.execs {
		if e.srcLive {
			n++
		}
	}
	return n
}

// sync copies what execution e's subject delivered to observer i since last time.
func (m *shareModel) sync() {
	for i, e := range m.of {
		t := e.subj.traces[i]
		for len(t) > m.base[i] {
			m.traces[i] = append(m.traces[i], t[m.base[i]])
			m.base[i]++
		}
	}
}

func (m *shareModel) reset(e *shareExec) {
	e.srcLive = false
	if m.cur == e {
		m.cur = nil
	}
}

// leave is what the teardown of observer i's Share subscription does.
func (m *shareModel) leave(i int) {
	if !m.live[i] {
		return
	}
	m.live[i] = false
	e := m.of[i]
	e.subj.apply(sop{"U", i})
	m.refCount--
	if m.cfg.resetZero && m.refCount == 0 && !m.resetE && !m.resetC {
		m.reset(e)
	}
}

func (m *shareModel) apply(o sop) {
	switch o.op {
	case "S":
		i := o.arg
		m.refCount++
		created := false
		if m.cur == nil {
			m.cur = &shareExec{subj: newSubjModel(m.cfg.conn.k, m.nrec)}
			m.execs = append(m.execs, m.cur)
			created = true
		}
		e := m.cur
		m.of[i] = e
		m.base[i] = len(e.subj.traces[i])
		m.live[i] = true
		e.subj.apply(sop{"S", i})
		m.sync()
		if e.subj.cut[i] { // the subject was already terminated: the observer got its terminal at once
			m.leaveAfterTerminal(i)
		}
		if created {
			m.resetE, m.resetC = false, false
			e.srcLive = true
			m.srcSubs++
		}
	case "U":
		m.leave(o.arg)
	case "N":
		for _, e := range m.execs {
			if e.srcLive {
				e.subj.apply(o)
			}
		}
		m.sync()
	case "E", "C":
		for _, e := range m.execs {
			if !e.srcLive {
				continue
			}
			// the proxy closes (the source's subscription ends) whatever the flags say
			if (o.op == "E" && m.cfg.resetErr) || (o.op == "C" && m.cfg.resetComp) {
				m.reset(e)
			} else if o.op == "E" {
				m.resetE = true
			} else {
				m.resetC = true
			}
			e.srcLive = false
			attached := e.subj.ids()
			e.subj.apply(o)
			m.sync()
			for _, i := range attached {
				m.leaveAfterTerminal(i)
			}
		}
	}
}

// leaveAfterTerminal: the observer received a terminal notification, so its subscription closed and the
// Share teardown ran.
func (m *shareModel) leaveAfterTerminal(i int) {
	if !m.live[i] {
		return
	}
	m.live[i] = false
	m.refCount--
	if m.cfg.resetZero && m.refCount == 0 && !m.resetE && !m.resetC {
		m.reset(m.of[i])
	}
}

type shareImpl struct {
	src  *h.Src
	push *h.Push[int]
	obs  ro.Observable[int]
	recs []*h.Rec
	subs []ro.Subscription
	conn ro.ConnectableObservable[int]
	csub ro.Subscription
}

//go:norace
func (im *shareImpl) setSub(i int, s ro.Subscription) { im.subs[i] = s }

//go:norace
func (im *shareImpl) getSub(i int) ro.Subscription { return im.subs[i] }

//go:norace
func (im *shareImpl) setC(s ro.Subscription) { im.csub = s }

//go:norace
func (im *shareImpl) getC() ro.Subscription { return im.csub }

func newShareImpl(build func(ro.Observable[int]) ro.Observable[int], nrec int, yield bool) *shareImpl {
	im := &shareImpl{src: h.NewSrc("src"), recs: make([]*h.Rec, nrec), subs: make([]ro.Subscription, nrec)}
	o, p := h.Pushed[int](im.src, h.Unsafe)
	im.push = p
	im.obs = build(o)
	if c, ok := im.obs.(ro.ConnectableObservable[int]); ok {
		im.conn = c
	}
	for i := range im.recs {
		im.recs[i] = h.NewRec(fmt.Sprint("r", i))
		im.recs[i].YieldIn = yield
	}
	return im
}

func (im *shareImpl) apply(o sop) {
	switch o.op {
	case "S":
		im.setSub(o.arg, im.obs.Subscribe(h.Observer[int](im.recs[o.arg])))
	case "U":
		if s := im.getSub(o.arg); s != nil {
			s.Unsubscribe()
		}
	case "N":
		im.push.Next(o.arg)
	case "E":
		im.push.Error(h.ErrSrc)
	case "C":
		im.push.Complete()
	case "K":
		im.setC(im.conn.Connect())
	case "D":
		if s := im.getC(); s != nil {
			s.Unsubscribe()
		}
	}
}

func c11Alphabet(nrec int, connectable bool) []sop {
	a := []sop{{"N", 1}, {"N", 2}, {"E", 0}, {"C", 0}}
	for i := 0; i < nrec; i++ {
		a = append(a, sop{"S", i}, sop{"U", i})
	}
	if connectable {
		a = append(a, sop{"K", 0}, sop{"D", 0})
	}
	return a
}

func (o sop) short() string {
	switch o.op {
	case "K":
		return "Connect"
	case "D":
		return "Disconnect"
	case "N":
		return fmt.Sprintf("SrcNext(%d)", o.arg)
	case "E":
		return "SrcError"
	case "C":
		return "SrcComplete"
	}
	return o.String()
}

func evString(ops []sop) string {
	var s []string
	for _, o := range ops {
		s = append(s, o.short())
	}
	return strings.Join(s, " ")
}

func c11ShareCase(cfg shareCfg, nrec int, seq []sop, states map[string]bool) fw.Case {
	return fw.Case{Name: evString(seq), Opts: vrt.Options{Horizon: 20000}, Make: func() fw.Instance {
		var im *shareImpl
		var viol []fw.Violation
		body := func() {
			im = newShareImpl(cfg.build, nrec, false)
			m := newShareModel(cfg, nrec)
			for step, o := range seq {
				im.apply(o)
				m.apply(o)
				if len(viol) > 0 {
					continue
				}
				where := fmt.Sprintf("%s after [%s]", cfg.name, evString(seq[:step+1]))
				subs, _, live, _ := im.src.Get()
				maxLive := im.src.MaxOpen
				if maxLive > 1 {
					viol = append(viol, fw.V("seq/"+cfg.name+"/more-than-one-upstream-subscription/live", fmt.Sprintf("%s: %d live subscriptions to the source", where, maxLive)))
				}
				if live != m.liveSources() {
					cls := "source-not-released"
					if live < m.liveSources() {
						cls = "source-released-early"
					}
					viol = append(viol, fw.V("seq/"+cfg.name+"/upstream-liveness/"+cls, fmt.Sprintf("%s: source live=%d, reference count and reset options say %d", where, live, m.liveSources())))
				}
				if subs != m.srcSubs {
					cls := "restarted"
					if subs < m.srcSubs {
						cls = "not-restarted"
					}
					viol = append(viol, fw.V("seq/"+cfg.name+"/upstream-subscription-count/"+cls, fmt.Sprintf("%s: source subscribed %d times in total, reference count and reset options say %d", where, subs, m.srcSubs)))
				}
				for i := 0; i < nrec; i++ {
					if !h.SameTrace(im.recs[i].Events(), m.traces[i]) {
						viol = append(viol, fw.V("seq/"+cfg.name+"/trace-vs-definition/"+c10Class(seq[:step+1], im.recs[i].Events(), m.traces[i]),
							fmt.Sprintf("%s: subscriber %d received [%s]; the definition gives [%s]", where, i, im.recs[i].Trace(), h.Word(m.traces[i]))))
						break
					}
				}
			}
			states[fmt.Sprintf("%v|%d|%d|%v|%v", m.cur != nil, m.refCount, m.liveSources(), m.resetE, m.resetC)+fmt.Sprint(m.traces)] = true
		}
		return fw.Instance{Body: body, Outcome: func() string {
			var p []string
			for _, r := range im.recs {
				p = append(p, r.Trace())
			}
			return strings.Join(p, "|")
		}, Check: func(r *vrt.Result) []fw.Violation {
			out := viol
			if len(r.Blocked) > 0 {
				out = append(out, fw.V("seq/"+cfg.name+"/deadlock/"+blockedSummary(r), "["+evString(seq)+"] blocks: "+blockedSummary(r)))
			}
			if r.Crash != nil {
				out = append(out, fw.V("seq/"+cfg.name+"/panic/goroutine", r.Crash.Value))
			}
			return out
		}}
	}}
}

// ---- connectable

type connCfg struct {
	name  string
	conn  connKind
	reset bool
}

func (c connCfg) build(src ro.Observable[int]) ro.Observable[int] {
	return ro.ConnectableWithConfig(src, ro.ConnectableConfig[int]{Connector: c.conn.k.mk, ResetOnDisconnect: c.reset})
}

type connModel struct {
	cfg       connCfg
	nrec      int
	subj      *subjModel
	subjs     []*subjModel
	of        map[int]*subjModel
	base      map[int]int
	traces    map[int][]h.Ev
	connected bool
	srcSubs   int
}

func newConnModel(cfg connCfg, nrec int) *connModel {
	m := &connModel{cfg: cfg, nrec: nrec, of: map[int]*subjModel{}, base: map[int]int{}, traces: map[int][]h.Ev{}}
	m.subj = newSubjModel(cfg.conn.k, nrec)
	return m
}

func (m *connModel) sync() {
	for i, s := range m.of {
		t := s.traces[i]
		for len(t) > m.base[i] {
			m.traces[i] = append(m.traces[i], t[m.base[i]])
			m.base[i]++
		}
	}
}

func (m *connModel) disconnectEffects() {
	m.connected = false
	if m.cfg.reset {
		m.subj = newSubjModel(m.cfg.conn.k, m.nrec)
	}
}

func (m *connModel) apply(o sop) {
	switch o.op {
	case "S":
		if old, ok := m.of[o.arg]; ok {
			old.apply(sop{"U", o.arg})
		}
		m.of[o.arg] = m.subj
		m.base[o.arg] = len(m.subj.traces[o.arg])
		m.subj.apply(o)
	case "U":
		if s, ok := m.of[o.arg]; ok {
			s.apply(o)
		}
	case "K":
		if !m.connected {
			m.connected = true
			m.srcSubs++
		}
	case "D":
		if m.connected {
			m.disconnectEffects()
		}
	case "N":
		if m.connected {
			m.subj.apply(o)
		}
	case "E", "C":
		if m.connected {
			m.subj.apply(o)
			m.sync()
			m.disconnectEffects()
		}
	}
	m.sync()
}

func c11ConnCase(cfg connCfg, nrec int, seq []sop, states map[string]bool) fw.Case {
	return fw.Case{Name: evString(seq), Opts: vrt.Options{Horizon: 20000}, Make: func() fw.Instance {
		var im *shareImpl
		var viol []fw.Violation
		body := func() {
			im = newShareImpl(cfg.build, nrec, false)
			m := newConnModel(cfg, nrec)
			for step, o := range seq {
				im.apply(o)
				m.apply(o)
				if len(viol) > 0 {
					continue
				}
				where := fmt.Sprintf("%s after [%s]", cfg.name, evString(seq[:step+1]))
				subs, _, live, _ := im.src.Get()
				maxLive := im.src.MaxOpen
				if maxLive > 1 {
					viol = append(viol, fw.V("seq/"+cfg.name+"/more-than-one-upstream-subscription/live", fmt.Sprintf("%s: %d live subscriptions to the source", where, maxLive)))
				}
				wantLive := 0
				if m.connected {
					wantLive = 1
				}
				if live != wantLive {
					viol = append(viol, fw.V("seq/"+cfg.name+"/upstream-liveness/mismatch", fmt.Sprintf("%s: source live=%d, definition %d", where, live, wantLive)))
				}
				if subs != m.srcSubs {
					viol = append(viol, fw.V("seq/"+cfg.name+"/upstream-subscription-count/mismatch", fmt.Sprintf("%s: source subscribed %d times, definition %d", where, subs, m.srcSubs)))
				}
				for i := 0; i < nrec; i++ {
					if !h.SameTrace(im.recs[i].Events(), m.traces[i]) {
						viol = append(viol, fw.V("seq/"+cfg.name+"/trace-vs-definition/"+c10Class(seq[:step+1], im.recs[i].Events(), m.traces[i]),
							fmt.Sprintf("%s: subscriber %d received [%s]; the definition gives [%s]", where, i, im.recs[i].Trace(), h.Word(m.traces[i]))))
						break
					}
				}
			}
			states[fmt.Sprintf("%v|%d", m.connected, m.srcSubs)+fmt.Sprint(m.traces)] = true
		}
		return fw.Instance{Body: body, Outcome: func() string {
			var p []string
			for _, r := range im.recs {
				p = append(p, r.Trace())
			}
			return strings.Join(p, "|")
		}, Check: func(r *vrt.Result) []fw.Violation {
			out := viol
			if len(r.Blocked) > 0 {
				out = append(out, fw.V("seq/"+cfg.name+"/deadlock/"+blockedSummary(r), "["+evString(seq)+"] blocks: "+blockedSummary(r)))
			}
			return out
		}}
	}}
}

func c11Enabled(o sop, seq []sop) bool {
	// an observer subscribes again only after it has left (by Unsubscribe); keeps histories meaningful
	if o.op == "S" {
		in := false
		for _, p := range seq {
			if p.op == "S" && p.arg == o.arg {
				in = true
			}
			if p.op == "U" && p.arg == o.arg {
				in = false
			}
		}
		return !in
	}
	return true
}

func init() {
	Registry["C11"] = func(tier string) []fw.Scenario {
		depth, nrec := 5, 2
		if tier == "thorough" {
			depth, nrec = 7, 2
		}
		var scns []fw.Scenario
		for _, cfg := range shareConfigs() {
			cfg := cfg
			alpha := c11Alphabet(nrec, false)
			for _, first := range alpha {
				first := first
				scns = append(scns, fw.Scenario{ID: "C11/seq/" + cfg.name + "/" + first.short(), Group: "Share", Run: func(c *fw.Ctx) {
					states := map[string]bool{}
					var rec func(seq []sop)
					rec = func(seq []sop) {
						c.Explore(c11ShareCase(cfg, nrec, seq, states))
						if len(seq) >= depth {
							return
						}
						for _, o := range alpha {
							if c11Enabled(o, seq) {
								rec(append(append([]sop{}, seq...), o))
							}
						}
					}
					rec([]sop{first})
					c.AddStates(int64(len(states)))
				}})
			}
		}
		for _, cn := range c11Connectors() {
			for _, reset := range []bool{true, false} {
				cfg := connCfg{name: fmt.Sprintf("Connectable(%s,reset=%v)", cn.name, reset), conn: cn, reset: reset}
				alpha := c11Alphabet(nrec, true)
				for _, first := range alpha {
					first := first
					scns = append(scns, fw.Scenario{ID: "C11/seq/" + cfg.name + "/" + first.short(), Group: "Connectable", Run: func(c *fw.Ctx) {
						states := map[string]bool{}
						var rec func(seq []sop)
						rec = func(seq []sop) {
							c.Explore(c11ConnCase(cfg, nrec, seq, states))
							if len(seq) >= depth {
								return
							}
							for _, o := range alpha {
								if c11Enabled(o, seq) {
									rec(append(append([]sop{}, seq...), o))
								}
							}
						}
						rec([]sop{first})
						c.AddStates(int64(len(states)))
					}})
				}
			}
		}
		// cold synchronous sources: the source terminates inside the first subscriber's Subscribe call
		for _, cfg := range shareConfigs() {
			cfg := cfg
			scns = append(scns, fw.Scenario{ID: "C11/cold/" + cfg.name, Group: "Share", Run: func(c *fw.Ctx) {
				for _, w := range [][]h.Ev{wordC(), wordC(1), wordE(1), wordC(1, 2), wordE(), ints(1)} {
					for _, ops := range [][]sop{{{"S", 0}, {"S", 1}}, {{"S", 0}, {"U", 0}, {"S", 1}}, {{"S", 0}, {"S", 1}, {"U", 0}, {"U", 1}, {"S", 0}}} {
						c.Explore(c11ColdCase(cfg, w, ops))
					}
				}
			}})
		}
		scns = append(scns, c11Concurrent(tier)...)
		return scns
	}
}

// c11Concurrent: subscribers, unsubscribers, a producer and Connect/disconnect racing.
func c11Concurrent(tier string) []fw.Scenario {
	bound := 2
	if tier == "thorough" {
		bound = 3
	}
	type prog struct {
		name    string
		build   func(ro.Observable[int]) ro.Observable[int]
		pre     []sop
		threads [][]sop
		model   func() c11FinalModel
	}
	var progs []prog
	shareSets := [][][]sop{
		{{{"S", 0}, {"U", 0}}, {{"S", 1}}, {{"N", 1}, {"N", 2}}},
		{{{"S", 0}}, {{"S", 1}, {"U", 1}}, {{"N", 1}, {"C", 0}}},
		{{{"U", 0}}, {{"U", 1}, {"S", 1}}, {{"N", 1}, {"E", 0}}},
		{{{"U", 0}, {"S", 0}}, {{"N", 1}, {"N", 2}}},
		{{{"U", 0}}, {{"U", 1}}, {{"N", 1}, {"N", 2}}},
		// the last observer leaves while the source terminates (after the prefix [Sub0])
		// (producer first: in the canonical schedule it runs ahead, one preemption hands over to the leaver)
		{{{"N", 1}, {"C", 0}}, {{"U", 0}}},
		{{{"N", 1}, {"E", 0}}, {{"U", 0}}},
		{{{"C", 0}}, {{"U", 0}}, {{"S", 1}}},
		{{{"E", 0}}, {{"U", 0}, {"S", 0}}},
	}
	for _, cfg := range shareConfigs() {
		cfg := cfg
		if cfg.preset == "" && !(cfg.conn.name == "publish" || cfg.conn.name == "replay(1)" || (cfg.conn.name == "behavior(0)" && cfg.resetErr && cfg.resetComp)) {
			continue
		}
		for si, set := range shareSets {
			pre := []sop{}
			if si >= 2 {
				pre = []sop{{"S", 0}, {"S", 1}}
			}
			if si >= 5 {
				pre = []sop{{"S", 0}}
			}
			progs = append(progs, prog{name: fmt.Sprintf("%s/set%d", cfg.name, si), build: cfg.build, pre: pre, threads: set,
				model: func() c11FinalModel { return newShareModel(cfg, 2) }})
		}
	}
	connSets := [][][]sop{
		{{{"K", 0}}, {{"K", 0}}, {{"S", 1}}},
		{{{"K", 0}, {"D", 0}}, {{"S", 1}}, {{"N", 1}, {"N", 2}}},
		{{{"D", 0}}, {{"K", 0}}, {{"N", 1}}},
		{{{"D", 0}, {"K", 0}}, {{"S", 1}, {"U", 1}}, {{"N", 1}, {"C", 0}}},
	}
	for _, cn := range c11Connectors()[:3] {
		for _, reset := range []bool{true, false} {
			cfg := connCfg{name: fmt.Sprintf("Connectable(%s,reset=%v)", cn.name, reset), conn: cn, reset: reset}
			for si, set := range connSets {
				pre := []sop{{"S", 0}}
				if si >= 2 {
					pre = []sop{{"S", 0}, {"K", 0}}
				}
				progs = append(progs, prog{name: fmt.Sprintf("%s/set%d", cfg.name, si), build: cfg.build, pre: pre, threads: set,
					model: func() c11FinalModel { return newConnModel(cfg, 2) }})
			}
		}
	}
	var scns []fw.Scenario
	for _, p := range progs {
		p := p
		scns = append(scns, fw.Scenario{ID: "C11/conc/" + p.name, Group: "concurrent", Run: func(c *fw.Ctx) {
			var names []string
			for _, t := range p.threads {
				names = append(names, "["+evString(t)+"]")
			}
			// every final state the definition allows: one per order in which the operations can take effect
			allowed := map[string]string{}
			// what each subscriber may have received: its trace in SOME order of the operations (judged per
			// subscriber, because a broadcast reaches the subscribers one after the other)
			allowedTrace := []map[string]bool{{}, {}}
			c11Linearizations(p.threads, func(order []sop) {
				m := p.model()
				for _, o := range p.pre {
					m.apply(o)
				}
				for _, o := range order {
					m.apply(o)
				}
				m.apply(sop{"N", c11Probe})
				live, subs := m.final()
				var got []bool
				for i := 0; i < 2; i++ {
					got = append(got, hasProbe(m.trace(i)))
				}
				k := c11Final(live, subs, got)
				if _, ok := allowed[k]; !ok {
					allowed[k] = evString(order)
				}
				for i := 0; i < 2; i++ {
					allowedTrace[i][h.Word(m.trace(i))] = true
				}
			})
			c.Explore(fw.Case{Name: strings.Join(names, " "), Bound: bound, Sample: true, Make: func() fw.Instance {
				var im *shareImpl
				var escaped string
				var final string
				body := func() {
					defer func() {
						// all operations are over: the state the sharing machinery is left in, and who still listens
						vrt.Settle()
						guard(&escaped, "a probe value after quiescence", func() { im.apply(sop{"N", c11Probe}) })
						_, _, live, _ := im.src.Get()
						subs, _, _, _ := im.src.Get()
						var got []bool
						for _, rec := range im.recs {
							got = append(got, hasProbe(rec.Events()))
						}
						final = c11Final(live, subs, got)
					}()
					im = newShareImpl(p.build, 2, true)
					for _, o := range p.pre {
						im.apply(o)
					}
					for ti, ops := range p.threads {
						ops := ops
						vrt.GoNamed(fmt.Sprint("T", ti), func() {
							guard(&escaped, "an operation", func() {
								for _, o := range ops {
									im.apply(o)
								}
							})
						})
					}
				}
				return fw.Instance{Body: body, Outcome: func() string { return im.recs[0].Trace() + "|" + im.recs[1].Trace() },
					Nontrivial: func(r *vrt.Result) bool { return r.Switches > 2 },
					Check: func(r *vrt.Result) []fw.Violation {
						var out []fw.Violation
						sig := "concurrent/" + p.name
						if escaped != "" {
							out = append(out, fw.V(sig+"/panic/escaped", escaped))
						}
						if r.Crash != nil {
							out = append(out, fw.V(sig+"/panic/goroutine", r.Crash.Value))
						}
						if len(r.Blocked) > 0 {
							out = append(out, fw.V(sig+"/deadlock/"+blockedSummary(r), blockedSummary(r)))
						}
						for _, re := range h.RuntimeErrors() {
							out = append(out, fw.V(sig+"/recovered-runtime-error/dropped", re))
							break
						}
						maxLive := im.src.MaxOpen
						if maxLive > 1 {
							out = append(out, fw.V(sig+"/more-than-one-upstream-subscription/live", fmt.Sprintf("%d subscriptions to the source were live at the same time", maxLive)))
						}
						if _, ok := allowed[final]; !ok && len(r.Blocked) == 0 && r.Crash == nil && escaped == "" {
							var al []string
							for k, ord := range allowed {
								al = append(al, k+" (e.g. order "+ord+")")
							}
							sort.Strings(al)
							out = append(out, fw.V(sig+"/final-state-not-reachable-sequentially/"+finalClass(final, allowed),
								fmt.Sprintf("after all operations finished and a probe value was pushed: %s; no order of the operations gives that, the definition allows: %s", final, strings.Join(al, "; "))))
						}
						for i, rec := range im.recs {
							// a recorder that the program subscribes twice stands for two subscriptions: the library
							// serialises each of them, not the two against each other (the first may still be
							// delivering while the connector replays to the second)
							again := resubscribed(p.pre, p.threads[0], p.threads[1], lastOr(p.threads, 2), i)
							if rec.MaxInside > 1 && !again {
								out = append(out, fw.V(sig+"/overlap/observer", rec.Overlap))
							}
							evs := rec.Events()
							if again {
								continue
							}
							if !allowedTrace[i][h.Word(evs)] && len(r.Blocked) == 0 && r.Crash == nil && escaped == "" {
								var al []string
								for t := range allowedTrace[i] {
									al = append(al, "["+t+"]")
								}
								sort.Strings(al)
								out = append(out, fw.V(sig+"/subscriber-trace-for-no-order-of-the-operations/"+diffClassAny(evs, allowedTrace[i]), fmt.Sprintf("subscriber %d received [%s] (probe value %d included); the definition gives it one of %s", i, h.Word(evs), c11Probe, strings.Join(al, " "))))
							}
							if g := h.GrammarError(evs); g != "" {
								out = append(out, fw.V(sig+"/grammar/"+grammarClass(evs), g))
							}
							last := -1
							for _, e := range evs {
								if e.K == h.N {
									v := e.V.(int)
									if v == c11Probe {
										continue
									}
									if v != 0 && v <= last {
										out = append(out, fw.V(sig+"/order/values", fmt.Sprintf("subscriber %d received [%s]: source order not kept", i, rec.Trace())))
										break
									}
									last = v
								}
							}
						}
						return out
					}}
			}})
		}})
	}
	return scns
}

// diffClassAny names how a trace departs from every allowed one (by length first).
func diffClassAny(evs []h.Ev, allowed map[string]bool) string {
	shorter, longer := false, false
	for t := range allowed {
		n := len(strings.Fields(t))
		if len(evs) < n {
			shorter = true
		}
		if len(evs) > n {
			longer = true
		}
	}
	switch {
	case shorter && !longer:
		return "notification-missing"
	case longer && !shorter:
		return "notification-extra"
	}
	return "differs"
}

const c11Probe = 9

// c11FinalModel is what the concurrent oracle needs from the two reference models.
type c11FinalModel interface {
	apply(sop)
	final() (live, subs int)
	trace(i int) []h.Ev
}

func (m *shareModel) final() (int, int)  { return m.liveSources(), m.srcSubs }
func (m *shareModel) trace(i int) []h.Ev { return m.traces[i] }
func (m *connModel) final() (int, int) {
	if m.connected {
		return 1, m.srcSubs
	}
	return 0, m.srcSubs
}
func (m *connModel) trace(i int) []h.Ev { return m.traces[i] }

func hasProbe(evs []h.Ev) bool {
	for _, e := range evs {
		if e.K == h.N && e.V.(int) == c11Probe {
			return true
		}
	}
	return false
}

func c11Final(live, subs int, got []bool) string {
	return fmt.Sprintf("live upstream subscriptions=%d, upstream subscriptions made=%d, subscribers reached by the probe=%v", live, subs, got)
}

// finalClass names the component that no allowed final state shares.
func finalClass(final string, allowed map[string]string) string {
	part := func(s string, i int) string { return strings.Split(s, ", ")[i] }
	for i, name := range []string{"live-upstream", "upstream-subscription-count", "probe-receivers"} {
		ok := false
		for k := range allowed {
			if part(k, i) == part(final, i) {
				ok = true
			}
		}
		if !ok {
			return name
		}
	}
	return "combination"
}

// c11Linearizations calls f with every interleaving of the threads' operation lists.
func c11Linearizations(threads [][]sop, f func([]sop)) {
	pos := make([]int, len(threads))
	var cur []sop
	var rec func()
	rec = func() {
		done := true
		for t := range threads {
			if pos[t] < len(threads[t]) {
				done = false
				cur = append(cur, threads[t][pos[t]])
				pos[t]++
				rec()
				pos[t]--
				cur = cur[:len(cur)-1]
			}
		}
		if done {
			f(append([]sop{}, cur...))
		}
	}
	rec()
}

func lastOr(ts [][]sop, i int) []sop {
	if i < len(ts) {
		return ts[i]
	}
	return nil
}

func c11ColdCase(cfg shareCfg, word []h.Ev, ops []sop) fw.Case {
	return fw.Case{Name: "cold[" + h.Word(word) + "]:" + evString(ops), Opts: vrt.Options{Horizon: 20000}, Make: func() fw.Instance {
		recs := []*h.Rec{h.NewRec("r0"), h.NewRec("r1")}
		src := h.NewSrc("src")
		var escaped string
		m := newShareModel(cfg, 2)
		body := func() {
			obs := cfg.build(h.Script[int](src, h.Unsafe, word))
			subs := make([]ro.Subscription, 2)
			guard(&escaped, "Subscribe/Unsubscribe", func() {
				for _, o := range ops {
					switch o.op {
					case "S":
						subs[o.arg] = obs.Subscribe(h.Observer[int](recs[o.arg]))
						before := m.srcSubs
						m.apply(o)
						if m.srcSubs > before {
							for _, e := range word {
								switch e.K {
								case h.N:
									m.apply(sop{"N", e.V.(int)})
								case h.E:
									m.apply(sop{"E", 0})
								case h.C:
									m.apply(sop{"C", 0})
								}
							}
						}
					case "U":
						if subs[o.arg] != nil {
							subs[o.arg].Unsubscribe()
						}
						m.apply(o)
					}
				}
			})
		}
		return fw.Instance{Body: body, Outcome: func() string { return recs[0].Trace() + "|" + recs[1].Trace() }, Check: func(r *vrt.Result) []fw.Violation {
			var out []fw.Violation
			sig := "cold/" + cfg.name
			where := fmt.Sprintf("%s over a cold source [%s], operations [%s]", cfg.name, h.Word(word), evString(ops))
			if escaped != "" {
				out = append(out, fw.V(sig+"/panic/escaped", where+": "+escaped))
			}
			for i := range recs {
				if !h.SameTrace(recs[i].Events(), m.traces[i]) {
					out = append(out, fw.V(sig+"/trace-vs-definition/"+diffClass(recs[i].Events(), m.traces[i]), fmt.Sprintf("%s: subscriber %d received [%s]; the definition gives [%s]", where, i, recs[i].Trace(), h.Word(m.traces[i]))))
					break
				}
			}
			for _, re := range h.RuntimeErrors() {
				out = append(out, fw.V(sig+"/recovered-runtime-error/dropped", where+": "+re))
				break
			}
			subs, tears, live, _ := src.Get()
			if live != m.liveSources() || subs != m.srcSubs {
				out = append(out, fw.V(sig+"/upstream-subscriptions/mismatch", fmt.Sprintf("%s: source subscribed %d times (torn down %d, live %d); definition: subscribed %d, live %d", where, subs, tears, live, m.srcSubs, m.liveSources())))
			}
			return out
		}}
	}}
}
