package checks

import (
	"strings"
	"verif.local/harness/cat"
	"verif.local/harness/fw"
	"verif.local/harness/h"
)

// rowsAndPairs returns the single rows and (separately) all ordered pairs of chainable rows.
func rowsAndPairs() (rows, pairs []cat.Row) {
	rows = cat.AllRows()
	chain := cat.ChainRows()
	for _, a := range chain {
		for _, b := range chain {
			pairs = append(pairs, cat.Pair(a, b))
		}
	}
	return
}

func legalN(row cat.Row, n int) [][]h.Ev {
	if len(row.Vals) > 3 && n > 2 {
		n = 2
	}
	return legalWords(row, n)
}

func init() {
	Registry["C01"] = func(tier string) []fw.Scenario {
		L, LP := 3, 3
		if tier == "thorough" {
			L, LP = 7, 5
		}
		rows, pairs := rowsAndPairs()
		var scns []fw.Scenario
		for _, row := range rows {
			row := row
			scns = append(scns, fw.Scenario{ID: "C01/" + row.Name, Group: row.Family, Run: func(c *fw.Ctx) {
				for _, w := range allWords(row, L) {
					for _, m := range []h.Mode{h.Unsafe, h.Safe, h.Eventually} {
						c.Explore(c01Case(row, w, m))
					}
				}
			}})
		}
		for _, row := range pairs {
			row := row
			scns = append(scns, fw.Scenario{ID: "C01/" + row.Name, Group: "pairs", Run: func(c *fw.Ctx) {
				for _, w := range allWords(row, LP) {
					c.Explore(c01Case(row, w, h.Unsafe))
				}
			}})
		}
		scns = append(scns, c01Concurrent(tier)...)
		scns = append(scns, c01Borrowed(tier)...)
		return scns
	}

	Registry["C03"] = func(tier string) []fw.Scenario {
		L, LP := 3, 2
		if tier == "thorough" {
			L, LP = 6, 5
		}
		rows, pairs := rowsAndPairs()
		var scns []fw.Scenario
		addRow := func(row cat.Row, n int, group string) {
			scns = append(scns, fw.Scenario{ID: "C03/" + row.Name, Group: group, Run: func(c *fw.Ctx) {
				for _, w := range legalN(row, n) {
					if isOpen(w) && row.Has(cat.Blocking) {
						continue // Subscribe does not return on a source that never ends: C14
					}
					c.Explore(c03Cold(row, w))
					if row.Has(cat.Blocking) {
						continue
					}
					for k := 0; k <= len(w); k++ {
						c.Explore(c03Cut(row, w, k, false))
						if k < len(w) {
							c.Explore(c03Cut(row, w, k, true))
						}
					}
				}
			}})
		}
		for _, row := range rows {
			addRow(row, L, row.Family)
		}
		for _, row := range pairs {
			addRow(row, LP, "pairs")
		}
		scns = append(scns, c03Races(tier)...)
		scns = append(scns, c03MultiSourcePanics()...)
		scns = append(scns, c03HigherOrderAsyncOuter()...)
		// context cancellation is one more way a stream ends: C14's context scenarios with C03's clauses
		// (teardown added to the subscription runs exactly once, no library goroutine left blocked)
		for _, co := range c14CtxOps() {
			co := co
			scns = append(scns, fw.Scenario{ID: "C03/ctx/" + co.name, Group: "context", Run: func(c *fw.Ctx) {
				c.Explore(c14CtxCaseOpt(co.name, co.mk, co.push, true))
			}})
		}
		return scns
	}

	Registry["C08"] = func(tier string) []fw.Scenario {
		L, LP := 3, 2
		if tier == "thorough" {
			L, LP = 7, 5
		}
		rows, pairs := rowsAndPairs()
		var scns []fw.Scenario
		addRow := func(row cat.Row, n int, group string) {
			if !row.Has(cat.Sync) || row.Has(cat.Blocking) {
				return
			}
			scns = append(scns, fw.Scenario{ID: "C08/" + row.Name, Group: group, Run: func(c *fw.Ctx) {
				for _, w := range legalN(row, n) {
					c.Explore(c08Case(row, w))
				}
			}})
		}
		for _, row := range rows {
			addRow(row, L, row.Family)
		}
		for _, row := range pairs {
			addRow(row, LP, "pairs")
		}
		scns = append(scns, c08HandOff(tier)...)
		return scns
	}

	Registry["C09"] = func(tier string) []fw.Scenario {
		L, LP := 3, 2
		if tier == "thorough" {
			L, LP = 5, 4
		}
		rows, pairs := rowsAndPairs()
		// ContextReset replaces the context by design (it is not a pass-through operator for contexts): the generic
		// clauses do not apply behind it; it has a scenario of its own below (new context visible, never nil)
		noReset := func(in []cat.Row) []cat.Row {
			var out []cat.Row
			for _, r := range in {
				if !strings.Contains(r.Name, "ContextReset") {
					out = append(out, r)
				}
			}
			return out
		}
		rows, pairs = noReset(rows), noReset(pairs)
		var scns []fw.Scenario
		scns = append(scns, c09ContextReset())
		scns = append(scns, c09CallbackContexts(tier)...)
		var ctxWithValue cat.Row
		for _, r := range rows {
			if r.Name == "ContextWithValue" {
				ctxWithValue = r
			}
		}
		for _, row := range rows {
			row := row
			scns = append(scns, fw.Scenario{ID: "C09/" + row.Name, Group: row.Family, Run: func(c *fw.Ctx) {
				for _, w := range legalN(row, L) {
					if isOpen(w) && row.Has(cat.Blocking) {
						continue
					}
					c.Explore(c09Case(row, w, false))
				}
			}})
			if row.IntChain != nil && !row.Has(cat.Blocking) {
				mid := cat.Pair(ctxWithValue, row)
				scns = append(scns, fw.Scenario{ID: "C09/mid/" + mid.Name, Group: row.Family, Run: func(c *fw.Ctx) {
					for _, w := range legalN(mid, L) {
						c.Explore(c09Case(mid, w, true))
					}
				}})
			}
		}
		for _, row := range pairs {
			row := row
			scns = append(scns, fw.Scenario{ID: "C09/" + row.Name, Group: "pairs", Run: func(c *fw.Ctx) {
				for _, w := range legalN(row, LP) {
					c.Explore(c09Case(row, w, false))
				}
			}})
		}
		scns = append(scns, c09Extra(tier)...)
		return scns
	}

	Registry["C12"] = func(tier string) []fw.Scenario {
		L, LP := 3, 2
		if tier == "thorough" {
			L, LP = 6, 5
		}
		rows, pairs := rowsAndPairs()
		var scns []fw.Scenario
		orders := [][3]int{{0, 1, 2}, {0, 2, 1}, {1, 0, 2}, {1, 2, 0}, {2, 0, 1}, {2, 1, 0}}
		wordSets := [][3][]h.Ev{
			{wordC(1, 2), wordE(2), wordC(1, 1, 2)},
			{wordC(), wordC(2, 1), wordE(1)},
		}
		addRow := func(row cat.Row, n int, group string) {
			scns = append(scns, fw.Scenario{ID: "C12/" + row.Name, Group: group, Run: func(c *fw.Ctx) {
				for _, w := range legalN(row, n) {
					if isOpen(w) && row.Has(cat.Blocking) {
						continue
					}
					c.Explore(c12Resub(row, w))
				}
				if group != "pairs" {
					// what the first run went through (word a) must not leak into the second (word b)
					short := legalN(row, 2)
					for _, a := range short {
						for _, b := range short {
							if h.Word(a) == h.Word(b) || (row.Has(cat.Blocking) && (isOpen(a) || isOpen(b))) {
								continue
							}
							c.Explore(c12ResubAfter(row, a, b))
						}
					}
				}
				if row.IntChain != nil && group != "pairs" {
					for _, ws := range wordSets {
						for _, o := range orders {
							c.Explore(c12Apply(row, ws, o))
						}
					}
				}
			}})
		}
		for _, row := range rows {
			addRow(row, L, row.Family)
		}
		for _, row := range pairs {
			addRow(row, LP, "pairs")
		}
		scns = append(scns, c12Concurrent(tier)...)
		scns = append(scns, c12Multi(tier)...)
		return scns
	}
}
