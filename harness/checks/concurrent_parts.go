package checks

import (
	"context"
	"errors"
	"fmt"
	"strings"
	"time"

	"github.com/samber/ro"
	"verif.local/harness/cat"
	"verif.local/harness/fw"
	"verif.local/harness/h"
	"verif.local/vrt"
)

// ---------------------------------------------------------------- C01 concurrent
// 2 (thorough 3) threads each play a word - illegal suffixes included - into one destination obtained
// from a safe constructor, Serialize or a subject; downstream nothing or an unsafe operator.

// c01Borrowed: the concurrent drivers of C02 and C05 (two or three producers feeding one operator), judged
// by the grammar: every recorder sees values, at most one terminal, then nothing.
func c01Borrowed(tier string) []fw.Scenario {
	var scns []fw.Scenario
	for _, prop := range []string{"C02", "C05"} {
		for _, sc := range Registry[prop](tier) {
			sc := sc
			if prop == "C05" && !strings.HasPrefix(sc.ID, "C05/conc/") {
				continue
			}
			if prop == "C02" && !strings.HasSuffix(sc.ID, "/bare") {
				continue
			}
			orig := sc.Run
			grp := sc.Group
			scns = append(scns, fw.Scenario{ID: "C01/conc/" + sc.ID, Group: sc.Group, Run: func(c *fw.Ctx) {
				fw.AltCheck = func(recs []*h.Rec, r *vrt.Result) []fw.Violation {
					for _, rec := range recs {
						if g := h.GrammarError(rec.Events()); g != "" {
							return []fw.Violation{fw.V("concurrent/"+grp+"/grammar/"+grammarClass(rec.Events()), fmt.Sprintf("observer %s: %s", rec.Name, g))}
						}
					}
					return nil
				}
				defer func() { fw.AltCheck = nil }()
				orig(c)
			}})
		}
	}
	return scns
}

func c01Concurrent(tier string) []fw.Scenario {
	bound := 2
	if tier == "thorough" {
		bound = 3
	}
	type dest struct {
		name string
		// mk returns the function that plays one event into the shared destination and subscribes rec
		mk func(rec *h.Rec, down string) func(e h.Ev)
	}
	downstream := func(o ro.Observable[int], down string) ro.Observable[int] {
		switch down {
		case "Map":
			return ro.Map(func(v int) int { return v })(o)
		case "Take(1)":
			return ro.Take[int](1)(o)
		case "Scan":
			return ro.Scan(func(a, v int) int { return v }, 0)(o)
		}
		return o
	}
	pushedDest := func(name string, mode h.Mode, wrap func(ro.Observable[int]) ro.Observable[int]) dest {
		return dest{name: name, mk: func(rec *h.Rec, down string) func(e h.Ev) {
			o, p := h.Pushed[int](h.NewSrc("src"), mode)
			if wrap != nil {
				o = wrap(o)
			}
			sub(downstream(o, down), rec)
			return func(e h.Ev) { p.Emit(e) }
		}}
	}
	subjDest := func(name string, mk func() ro.Subject[int]) dest {
		return dest{name: name, mk: func(rec *h.Rec, down string) func(e h.Ev) {
			s := mk()
			sub(downstream(s.AsObservable(), down), rec)
			return func(e h.Ev) { h.Play[int](nil2bg(), s, 0, e) }
		}}
	}
	dests := []dest{
		pushedDest("NewSafeObservable", h.Safe, nil),
		pushedDest("NewEventuallySafeObservable", h.Eventually, nil),
		pushedDest("Serialize(unsafe)", h.Unsafe, func(o ro.Observable[int]) ro.Observable[int] { return ro.Serialize[int]()(o) }),
		subjDest("PublishSubject", func() ro.Subject[int] { return ro.NewPublishSubject[int]() }),
		subjDest("BehaviorSubject", func() ro.Subject[int] { return ro.NewBehaviorSubject[int](0) }),
		subjDest("ReplaySubject", func() ro.Subject[int] { return ro.NewReplaySubject[int](2) }),
		subjDest("AsyncSubject", func() ro.Subject[int] { return ro.NewAsyncSubject[int]() }),
		subjDest("UnicastSubject", func() ro.Subject[int] { return ro.NewUnicastSubject[int](4) }),
	}
	wordsA := [][]h.Ev{{h.Nx(1), h.Co()}, {h.Nx(1), h.Er(h.ErrSrc)}, {h.Co(), h.Nx(1)}, {h.Nx(1), h.Nx(2)}}
	wordsB := [][]h.Ev{{h.Nx(7), h.Co()}, {h.Er(h.ErrAlt), h.Nx(7)}, {h.Co()}, {h.Nx(7), h.Er(h.ErrAlt)}}
	var scns []fw.Scenario
	for _, d := range dests {
		d := d
		for _, down := range []string{"", "Map", "Take(1)", "Scan", "raw:", "raw:Map"} {
			// "raw:" = the final observer implements ro.Observer by hand (no status guard of its own: the
			// library's subscriber is the only thing between a late notification and the user)
			raw := strings.HasPrefix(down, "raw:")
			downName := down
			down := strings.TrimPrefix(down, "raw:")
			scns = append(scns, fw.Scenario{ID: "C01/conc/" + d.name + "/" + downName, Group: d.name, Run: func(c *fw.Ctx) {
				for _, wa := range wordsA {
					for _, wb := range wordsB {
						wa, wb := wa, wb
						nm := fmt.Sprintf("[%s] || [%s]", h.Word(wa), h.Word(wb))
						b := bound
						if down != "" {
							b = bound - 1
						}
						c.Explore(fw.Case{Name: nm, Bound: b, Sample: down == "", Make: func() fw.Instance {
							rec := h.NewRec("out")
							rec.YieldIn = true
							rec.Raw = raw
							var hooks *h.Hooks
							body := func() {
								hooks = h.BeginHooks()
								emit := d.mk(rec, down)
								vrt.GoNamed("emitterA", func() {
									for _, e := range wa {
										emit(e)
									}
								})
								vrt.GoNamed("emitterB", func() {
									for _, e := range wb {
										emit(e)
									}
								})
							}
							return fw.Instance{Body: body, Outcome: rec.Trace, Nontrivial: func(r *vrt.Result) bool { return r.Switches > 2 }, Check: func(r *vrt.Result) []fw.Violation {
								var out []fw.Violation
								sig := "concurrent/" + d.name + "+" + downName
								evs := rec.Events()
								if g := h.GrammarError(evs); g != "" {
									out = append(out, fw.V(sig+"/grammar/"+grammarClass(evs), nm+": "+g))
								}
								// delivered values are values that were emitted; each emitter's values keep their order
								if down == "" || down == "Map" {
									for _, w := range [][]h.Ev{wa, wb} {
										last := -1
										for _, e := range evs {
											if e.K != h.N {
												continue
											}
											for i, we := range w {
												if we.K == h.N && we.V == e.V {
													if i < last {
														out = append(out, fw.V(sig+"/emitter-order/reordered", fmt.Sprintf("%s: trace [%s]", nm, rec.Trace())))
													}
													last = i
												}
											}
										}
									}
									for _, e := range evs {
										if e.K == h.N && e.V != 0 && !inWord(wa, e.V) && !inWord(wb, e.V) {
											out = append(out, fw.V(sig+"/invented-value/value", fmt.Sprintf("%s: %v was never emitted", nm, e.V)))
										}
									}
								}
								if len(r.Blocked) > 0 {
									out = append(out, fw.V(sig+"/deadlock/"+blockedSummary(r), nm))
								}
								_ = hooks
								return out
							}}
						}})
					}
				}
			}})
		}
	}
	return scns
}

func inWord(w []h.Ev, v interface{}) bool {
	for _, e := range w {
		if e.K == h.N && e.V == v {
			return true
		}
	}
	return false
}

// ---------------------------------------------------------------- C03 races
// One subscriber (each mode) with counted teardowns - one of them added late by a thread - and threads
// drawn from {Complete, Error, Unsubscribe, Unsubscribe, Add, Wait}; every subset of panicking teardowns.

type tdCounters struct {
	runs   [4]int
	thread [4]int
}

//go:norace
func (t *tdCounters) ran(i int) { t.runs[i]++; t.thread[i] = vrt.Self() }

//go:norace
func (t *tdCounters) get(i int) int { return t.runs[i] }

func c03Races(tier string) []fw.Scenario {
	bound := 2
	if tier == "thorough" {
		bound = 3
	}
	actions := map[string]func(s ro.Subscriber[int], td *tdCounters){
		"Complete":    func(s ro.Subscriber[int], td *tdCounters) { s.Complete() },
		"Error":       func(s ro.Subscriber[int], td *tdCounters) { s.Error(h.ErrSrc) },
		"Unsubscribe": func(s ro.Subscriber[int], td *tdCounters) { s.Unsubscribe() },
		"Add":         func(s ro.Subscriber[int], td *tdCounters) { s.Add(func() { td.ran(2) }) },
		"Wait":        func(s ro.Subscriber[int], td *tdCounters) { s.Wait() },
		"Next":        func(s ro.Subscriber[int], td *tdCounters) { s.Next(1) },
	}
	sets := [][]string{
		{"Complete", "Unsubscribe"}, {"Error", "Unsubscribe"}, {"Complete", "Error"}, {"Unsubscribe", "Unsubscribe"},
		{"Complete", "Add"}, {"Unsubscribe", "Add"}, {"Error", "Add"}, {"Complete", "Wait"}, {"Unsubscribe", "Wait"},
		{"Complete", "Unsubscribe", "Add"}, {"Error", "Unsubscribe", "Wait"}, {"Unsubscribe", "Add", "Wait"}, {"Complete", "Error", "Unsubscribe"},
		{"Next", "Unsubscribe", "Add"}, {"Complete", "Add", "Wait"},
	}
	modes := []struct {
		name string
		mk   func(o ro.Observer[int]) ro.Subscriber[int]
	}{
		{"safe", ro.NewSafeSubscriber[int]}, {"unsafe", ro.NewUnsafeSubscriber[int]}, {"eventually-safe", ro.NewEventuallySafeSubscriber[int]},
	}
	var scns []fw.Scenario
	for _, m := range modes {
		m := m
		for _, set := range sets {
			set := set
			nm := strings.Join(set, "||")
			b := bound
			if len(set) > 2 {
				b = bound - 1
			}
			scns = append(scns, fw.Scenario{ID: "C03/races/" + m.name + "/" + nm, Group: "subscriber-" + m.name, Run: func(c *fw.Ctx) {
				c.Explore(fw.Case{Name: nm, Bound: b, Sample: true, Make: func() fw.Instance {
					td := &tdCounters{}
					rec := h.NewRec("out")
					var escaped string
					hasAdd := false
					body := func() {
						s := m.mk(h.Observer[int](rec))
						s.Add(func() { td.ran(0) })
						s.Add(func() { td.ran(1) })
						for _, a := range set {
							a := a
							if a == "Add" {
								hasAdd = true
							}
							vrt.GoNamed(a, func() { guard(&escaped, a, func() { actions[a](s, td) }) })
						}
					}
					return fw.Instance{Body: body, Outcome: func() string { return fmt.Sprint(td.runs, rec.Trace()) }, Nontrivial: func(r *vrt.Result) bool { return r.Switches > 2 }, Check: func(r *vrt.Result) []fw.Violation {
						var out []fw.Violation
						sig := "races/subscriber-" + m.name
						closes := false
						for _, a := range set {
							if a == "Complete" || a == "Error" || a == "Unsubscribe" {
								closes = true
							}
						}
						for i := 0; i < 3; i++ {
							want := 1
							if i == 2 && !hasAdd {
								want = 0
							}
							if !closes {
								want = 0
							}
							if got := td.get(i); got != want {
								cls := "never"
								if got > want {
									cls = "twice"
								}
								out = append(out, fw.V(sig+"/teardown-exactly-once/"+cls, fmt.Sprintf("%s: teardown #%d ran %d times (expected %d); all runs %v", nm, i, got, want, td.runs)))
							}
						}
						if escaped != "" {
							out = append(out, fw.V(sig+"/panic-escaped/call", nm+": "+escaped))
						}
						for _, bl := range r.Blocked {
							if closes || bl.Name != "Wait" {
								out = append(out, fw.V(sig+"/blocked/"+bl.Name, fmt.Sprintf("%s: %s never returned (%s)", nm, bl.Name, bl.Op)))
							}
						}
						if g := h.GrammarError(rec.Events()); g != "" {
							out = append(out, fw.V(sig+"/grammar/"+grammarClass(rec.Events()), nm+": "+g))
						}
						return out
					}}
				}})
			}})
		}
	}
	// every subset of panicking teardowns: all of them run, the panic reaches the caller afterwards
	scns = append(scns, fw.Scenario{ID: "C03/races/panicking-teardowns", Group: "subscription", Run: func(c *fw.Ctx) {
		for mask := 0; mask < 8; mask++ {
			for _, via := range []string{"Unsubscribe", "Complete", "Error"} {
				mask, via := mask, via
				c.Explore(fw.Case{Name: fmt.Sprintf("panic-mask-%03b/%s", mask, via), Make: func() fw.Instance {
					td := &tdCounters{}
					var caught interface{}
					var order []int
					body := func() {
						s := ro.NewSafeSubscriber[int](ro.NoopObserver[int]())
						for i := 0; i < 3; i++ {
							i := i
							s.Add(func() {
								td.ran(i)
								order = append(order, i)
								if mask&(1<<i) != 0 {
									panic(fmt.Errorf("teardown %d: %w", i, h.ErrCb))
								}
							})
						}
						func() {
							defer func() { caught = recover() }()
							switch via {
							case "Unsubscribe":
								s.Unsubscribe()
							case "Complete":
								s.Complete()
							case "Error":
								s.Error(h.ErrSrc)
							}
						}()
					}
					return fw.Instance{Body: body, Outcome: func() string { return fmt.Sprint(order, caught != nil) }, Check: func(r *vrt.Result) []fw.Violation {
						var out []fw.Violation
						sig := "races/panicking-teardowns"
						for i := 0; i < 3; i++ {
							if td.get(i) != 1 {
								out = append(out, fw.V(sig+"/teardown-exactly-once/skipped", fmt.Sprintf("teardowns panicking: %03b, closed by %s: teardown #%d ran %d times", mask, via, i, td.get(i))))
							}
						}
						if mask != 0 {
							if caught == nil {
								out = append(out, fw.V(sig+"/panic-not-re-raised/swallowed", fmt.Sprintf("teardowns panicking: %03b, closed by %s: the caller saw no panic", mask, via)))
							} else if err, ok := caught.(error); !ok || !errors.Is(err, h.ErrCb) && !strings.Contains(err.Error(), h.ErrCb.Error()) {
								out = append(out, fw.V(sig+"/panic-does-not-match-cause/value", fmt.Sprintf("re-raised value %v", caught)))
							}
						} else if caught != nil {
							out = append(out, fw.V(sig+"/spurious-panic/value", fmt.Sprint(caught)))
						}
						return out
					}}
				}})
			}
		}
	}})
	return scns
}

// c03MultiSourcePanics: operators that hold several upstream subscriptions release every one of them
// exactly once even when some of the sources' teardowns panic ("a panicking teardown does not stop the
// others from running") - for every non-empty subset of panicking sources and for the ways a stream ends.
func c03MultiSourcePanics() []fw.Scenario {
	var scns []fw.Scenario
	for _, op := range c05Ops() {
		op := op
		scns = append(scns, fw.Scenario{ID: "C03/multi-source-panicking-teardowns/" + op.name, Group: "multi-source", Run: func(c *fw.Ctx) {
			for mask := 0; mask < 1<<op.k; mask++ {
				for _, via := range []string{"Unsubscribe", "source0-error", "source0-value-then-Unsubscribe"} {
					mask, via := mask, via
					nm := fmt.Sprintf("%s/panicking-sources-%0*b/%s", op.name, op.k, mask, via)
					c.Explore(fw.Case{Name: nm, Opts: vrt.Options{Horizon: 40000}, Make: func() fw.Instance {
						out := h.NewRec("out")
						set := &recSet{}
						srcs := make([]*h.Src, op.k)
						var caught string
						ended := false
						body := func() {
							obs := make([]ro.Observable[int], op.k)
							push := make([]*h.Push[int], op.k)
							for i := range srcs {
								srcs[i] = h.NewSrc(fmt.Sprint("s", i))
								srcs[i].PanicOnTear = mask&(1<<i) != 0
								obs[i], push[i] = h.Pushed[int](srcs[i], h.Unsafe)
							}
							var subscription ro.Subscription
							guard(&caught, "Subscribe", func() { subscription = op.build(obs, set, out) })
							if subscription == nil {
								return
							}
							switch via {
							case "Unsubscribe":
								guard(&caught, "Unsubscribe", func() { subscription.Unsubscribe() })
								ended = true
							case "source0-value-then-Unsubscribe":
								guard(&caught, "Next", func() { push[0].Next(1) })
								guard(&caught, "Unsubscribe", func() { subscription.Unsubscribe() })
								ended = true
							case "source0-error":
								guard(&caught, "Error", func() { push[0].Error(h.ErrSrc) })
								ended = subscription.IsClosed()
							}
							vrt.Settle()
						}
						return fw.Instance{Body: body, Outcome: func() string { return out.Trace() + " caught=" + fmt.Sprint(caught != "") }, Nontrivial: func(r *vrt.Result) bool { return ended },
							Check: func(r *vrt.Result) []fw.Violation {
								if !ended {
									return nil // this operator does not end on an error of its first source: nothing to release yet
								}
								var outv []fw.Violation
								sig := "multi-source/" + op.name
								for i, sc := range srcs {
									if sc == nil {
										continue
									}
									subs, tears, _, _ := sc.Get()
									if tears != subs {
										cls := "skipped"
										if tears > subs {
											cls = "repeated"
										}
										outv = append(outv, fw.V(sig+"/upstream-released-exactly-once-despite-panicking-teardowns/"+cls,
											fmt.Sprintf("%s: source %d was subscribed %d times and released %d times (sources whose teardown panics: %0*b)", nm, i, subs, tears, op.k, mask)))
										break
									}
								}
								if r.Crash != nil {
									outv = append(outv, fw.V(sig+"/goroutine-top-panic/"+r.Crash.Name, nm+": "+r.Crash.Value))
								}
								return outv
							}}
					}})
				}
			}
		}})
	}
	return scns
}

// c03HigherOrderAsyncOuter: higher-order operators whose OUTER observable delivers the inner observables
// (and its completion) after Subscribe has returned. Inner observables that emit while they are being
// subscribed can end the output in the middle of that phase; whatever was subscribed must be released.
func c03HigherOrderAsyncOuter() []fw.Scenario {
	type hoOp struct {
		name string
		mk   func(outer ro.Observable[ro.Observable[int]]) func(rec *h.Rec) ro.Subscription
	}
	anyRec := func(o ro.Observable[[]int]) func(rec *h.Rec) ro.Subscription {
		return func(rec *h.Rec) ro.Subscription { return o.Subscribe(h.Observer[[]int](rec)) }
	}
	intRec := func(o ro.Observable[int]) func(rec *h.Rec) ro.Subscription {
		return func(rec *h.Rec) ro.Subscription { return o.Subscribe(h.Observer[int](rec)) }
	}
	ops := []hoOp{
		{"ZipAll", func(o ro.Observable[ro.Observable[int]]) func(*h.Rec) ro.Subscription {
			return anyRec(ro.ZipAll[int]()(o))
		}},
		{"CombineLatestAll", func(o ro.Observable[ro.Observable[int]]) func(*h.Rec) ro.Subscription {
			return anyRec(ro.CombineLatestAll[int]()(o))
		}},
		{"MergeAll", func(o ro.Observable[ro.Observable[int]]) func(*h.Rec) ro.Subscription {
			return intRec(ro.MergeAll[int]()(o))
		}},
		{"MergeAll|Take(1)", func(o ro.Observable[ro.Observable[int]]) func(*h.Rec) ro.Subscription {
			return intRec(ro.Take[int](1)(ro.MergeAll[int]()(o)))
		}},
		{"ZipAll|Take(1)", func(o ro.Observable[ro.Observable[int]]) func(*h.Rec) ro.Subscription {
			return anyRec(ro.Take[[]int](1)(ro.ZipAll[int]()(o)))
		}},
		{"CombineLatestAll|Take(1)", func(o ro.Observable[ro.Observable[int]]) func(*h.Rec) ro.Subscription {
			return anyRec(ro.Take[[]int](1)(ro.CombineLatestAll[int]()(o)))
		}},
	}
	// inner kinds: j = Just(7) (emits and completes while being subscribed), o = emits one value while being
	// subscribed and stays open, p = pushed (silent, stays open)
	shapes := []string{"jo", "oj", "oo", "op", "po", "jp", "joo"}
	var scns []fw.Scenario
	for _, op := range ops {
		op := op
		scns = append(scns, fw.Scenario{ID: "C03/higher-order-async-outer/" + op.name, Group: "higher-order", Run: func(c *fw.Ctx) {
			for _, shape := range shapes {
				for _, end := range []string{"outer-completes", "outer-stays-open"} {
					shape, end := shape, end
					nm := fmt.Sprintf("%s over inner observables %q, %s, then Unsubscribe", op.name, shape, end)
					c.Explore(fw.Case{Name: nm, Opts: vrt.Options{Horizon: 40000}, Make: func() fw.Instance {
						rec := h.NewRec("out")
						var inners []*h.Src
						var escaped string
						body := func() {
							outer, po := h.Pushed[ro.Observable[int]](h.NewSrc("outer"), h.Unsafe)
							var subscription ro.Subscription
							guard(&escaped, "Subscribe", func() { subscription = op.mk(outer)(rec) })
							guard(&escaped, "Next", func() {
								for i, k := range shape {
									sc := h.NewSrc(fmt.Sprintf("inner%d(%c)", i, k))
									inners = append(inners, sc)
									switch k {
									case 'j':
										po.Next(h.Script[int](sc, h.Unsafe, []h.Ev{h.Nx(7), h.Co()}))
									case 'o':
										po.Next(h.Script[int](sc, h.Unsafe, []h.Ev{h.Nx(i + 1)}))
									default:
										o, _ := h.Pushed[int](sc, h.Unsafe)
										po.Next(o)
									}
								}
								if end == "outer-completes" {
									po.Complete()
								}
							})
							vrt.Settle()
							if subscription != nil {
								guard(&escaped, "Unsubscribe", func() { subscription.Unsubscribe() })
							}
							vrt.Settle()
						}
						return fw.Instance{Body: body, Outcome: rec.Trace, Check: func(r *vrt.Result) []fw.Violation {
							var out []fw.Violation
							sig := "higher-order/" + op.name
							if escaped != "" {
								out = append(out, fw.V(sig+"/panic-escaped/call", nm+": "+escaped))
							}
							for _, sc := range inners {
								n, t, _, _ := sc.Get()
								if n != t {
									cls := "skipped"
									if t > n {
										cls = "repeated"
									}
									out = append(out, fw.V(sig+"/inner-released-exactly-once/"+cls, fmt.Sprintf("%s: %s was subscribed %d times and released %d times (trace [%s])", nm, sc.Name, n, t, rec.Trace())))
									break
								}
							}
							if bl := blockedExcept(r, ""); bl != "" {
								out = append(out, fw.V(sig+"/blocked/"+bl, nm+": "+bl))
							}
							return out
						}}
					}})
				}
			}
		}})
	}
	return scns
}

// ---------------------------------------------------------------- C08 hand-off
// ObserveOn(n), SubscribeOn(n), ToChannel(n): output = input in order, terminal last, and the producer is
// never ahead of the consumer by more than n + 2.

type flow struct {
	produced, consumed, maxAhead int
}

//go:norace
func (f *flow) prod() {
	f.produced++
	if d := f.produced - f.consumed; d > f.maxAhead {
		f.maxAhead = d
	}
}

//go:norace
func (f *flow) cons() { f.consumed++ }

//go:norace
func (f *flow) ahead() int { return f.maxAhead }

// c08ToChannel: a producer thread pushes the word through ToChannel(n); a consumer thread reads the
// channel until it is closed, yielding around every read (arbitrary slowness).
func c08ToChannel(n int, word []h.Ev, bound int) fw.Case {
	nm := fmt.Sprintf("ToChannel(%d):%s", n, h.Word(word))
	return fw.Case{Name: nm, Bound: bound, Opts: vrt.Options{Horizon: 60000, MaxTime: int64(20 * time.Millisecond)}, Make: func() fw.Instance {
		rec := h.NewRec("out")
		cr := &chanReads{}
		fl := &flow{}
		body := func() {
			src := h.NewSrc("src")
			obs, push := h.Pushed[int](src, h.Unsafe)
			rec.Hook = func(r *h.Rec, idx int, e h.Ev) {
				if e.K == h.N {
					cr.setChan(e.V.(<-chan ro.Notification[int]))
				}
			}
			ro.ToChannel[int](n)(obs).Subscribe(h.Observer[<-chan ro.Notification[int]](rec))
			vrt.GoNamed("producer", func() {
				vrt.Point(vrt.OpUser, 0, func() bool { k, _, _, _ := src.Get(); return k > 0 })
				for _, e := range word {
					if e.K == h.N {
						fl.prod()
					}
					push.Emit(e)
				}
			})
			vrt.GoNamed("consumer", func() {
				ch, _ := cr.get()
				if ch == nil {
					return
				}
				for {
					vrt.Yield()
					nt, ok := vrt.Recv2(ch)
					if !ok {
						cr.setClosed()
						return
					}
					cr.add(nt)
					if nt.Kind == ro.KindNext {
						fl.cons()
					}
					vrt.Yield()
				}
			})
		}
		return fw.Instance{Body: body, Outcome: func() string { return notifString(cr.items) + fmt.Sprint(" closed=", cr.closed) },
			Nontrivial: func(r *vrt.Result) bool { return len(cr.items) > 0 }, Check: func(r *vrt.Result) []fw.Violation {
				if ch, _ := cr.get(); ch == nil {
					return nil // the observer never got the channel: C17's known finding, not a queueing matter
				}
				var out []fw.Violation
				sig := fmt.Sprintf("handoff/ToChannel(%d)", n)
				want := materialized(word)
				if notifString(cr.items) != notifString(want) {
					cls := "lost-or-reordered"
					if len(cr.items) < len(want) && notifString(cr.items) == notifString(want[:len(cr.items)]) {
						cls = "terminal-or-tail-lost"
					}
					out = append(out, fw.V(sig+"/fifo-no-loss/"+cls, fmt.Sprintf("%s: the consumer read [%s] until the channel was closed=%v; pushed [%s]", nm, notifString(cr.items), cr.closed, notifString(want))))
				}
				if a := fl.ahead(); a > n+2 {
					out = append(out, fw.V(sig+"/producer-runs-ahead/capacity", fmt.Sprintf("%s: the producer was %d values ahead of the consumer (capacity %d + 2)", nm, a, n)))
				}
				if r.Crash != nil {
					out = append(out, fw.V(sig+"/goroutine-top-panic/"+r.Crash.Name, r.Crash.Value))
				}
				if bl := blockedExcept(r, ""); bl != "" {
					out = append(out, fw.V(sig+"/blocked/"+bl, nm+": "+bl))
				}
				return out
			}}
	}}
}

func c08HandOff(tier string) []fw.Scenario {
	bound := 2
	if tier == "thorough" {
		bound = 3
	}
	var scns []fw.Scenario
	// ToChannel(n): the queue is the channel handed to the observer; the consumer is whoever reads it
	for _, n := range []int{0, 1, 2} {
		n := n
		scns = append(scns, fw.Scenario{ID: fmt.Sprintf("C08/handoff/ToChannel(%d)", n), Group: "ToChannel", Run: func(c *fw.Ctx) {
			for length := 0; length <= n+2; length++ {
				for _, end := range []h.Kind{h.C, h.E} {
					var word []h.Ev
					for i := 1; i <= length; i++ {
						word = append(word, h.Nx(i))
					}
					if end == h.C {
						word = append(word, h.Co())
					} else {
						word = append(word, h.Er(h.ErrSrc))
					}
					c.Explore(c08ToChannel(n, word, bound-1))
				}
			}
		}})
	}
	for _, kind := range []string{"ObserveOn", "SubscribeOn"} {
		kind := kind
		for _, n := range []int{1, 2, 3} {
			n := n
			scns = append(scns, fw.Scenario{ID: fmt.Sprintf("C08/handoff/%s(%d)", kind, n), Group: kind, Run: func(c *fw.Ctx) {
				for length := 0; length <= n+3; length++ {
					for _, end := range []h.Kind{h.C, h.E} {
						length, end := length, end
						var word []h.Ev
						for i := 1; i <= length; i++ {
							word = append(word, h.Nx(i))
						}
						if end == h.C {
							word = append(word, h.Co())
						} else {
							word = append(word, h.Er(h.ErrSrc))
						}
						nm := fmt.Sprintf("%s(%d):%s", kind, n, h.Word(word))
						c.Explore(fw.Case{Name: nm, Bound: bound, Opts: vrt.Options{DelayBounded: true}, Sample: length == n, Make: func() fw.Instance {
							rec := h.NewRec("out")
							fl := &flow{}
							rec.Hook = func(r *h.Rec, idx int, e h.Ev) {
								vrt.Yield()
								if e.K == h.N {
									fl.cons()
								}
								vrt.Yield()
							}
							var escaped string
							body := func() {
								src := h.NewSrc("src")
								o, push := h.Pushed[int](src, h.Unsafe)
								var piped ro.Observable[int]
								if kind == "ObserveOn" {
									piped = ro.ObserveOn[int](n)(o)
								} else {
									piped = ro.SubscribeOn[int](n)(o)
								}
								vrt.GoNamed("subscribe", func() { guard(&escaped, "Subscribe", func() { sub(piped, rec) }) })
								vrt.GoNamed("producer", func() {
									vrt.Point(vrt.OpUser, 0, func() bool { s, _, _, _ := src.Get(); return s > 0 })
									for _, e := range word {
										if e.K == h.N {
											fl.prod()
										}
										push.Emit(e)
									}
								})
							}
							return fw.Instance{Body: body, Outcome: rec.Trace, Nontrivial: func(r *vrt.Result) bool { return r.Switches > 2 }, Check: func(r *vrt.Result) []fw.Violation {
								var out []fw.Violation
								sig := fmt.Sprintf("handoff/%s(%d)", kind, n)
								if !h.SameTrace(rec.Events(), word) {
									out = append(out, fw.V(sig+"/fifo-no-loss/"+diffClass(rec.Events(), word), fmt.Sprintf("%s: delivered [%s]", nm, rec.Trace())))
								}
								if a := fl.ahead(); a > n+2 {
									out = append(out, fw.V(sig+"/producer-runs-ahead/capacity", fmt.Sprintf("%s: the producer was %d values ahead of the consumer (capacity %d + 2)", nm, a, n)))
								}
								if escaped != "" {
									out = append(out, fw.V(sig+"/panic-escaped/subscribe", escaped))
								}
								if r.Crash != nil {
									out = append(out, fw.V(sig+"/goroutine-top-panic/"+r.Crash.Name, r.Crash.Value))
								}
								if bl := blockedExcept(r, ""); bl != "" {
									out = append(out, fw.V(sig+"/blocked/"+bl, nm+": "+bl))
								}
								return out
							}}
						}})
					}
				}
			}})
		}
	}
	// two producers on a safe destination with a stalled consumer: no Next returns before its value was handled
	scns = append(scns, fw.Scenario{ID: "C08/two-producers-stalled-consumer", Group: "safe-destination", Run: func(c *fw.Ctx) {
		for _, mode := range []h.Mode{h.Safe, h.Eventually} {
			mode := mode
			c.Explore(fw.Case{Name: "stalled/" + modeName(mode), Bound: bound, Make: func() fw.Instance {
				rec := h.NewRec("out")
				rec.YieldIn = true
				type ret struct {
					v       int
					handled bool
				}
				var rets []ret
				var hooks *h.Hooks
				body := func() {
					hooks = h.BeginHooks()
					o, push := h.Pushed[int](h.NewSrc("src"), mode)
					sub(o, rec)
					for _, v := range []int{1, 2} {
						v := v
						vrt.GoNamed("producer", func() {
							push.Next(v)
							handled := false
							for _, en := range rec.Log {
								if en.K == h.N && en.V == v && en.Out > 0 {
									handled = true
								}
							}
							rets = append(rets, ret{v, handled})
						})
					}
				}
				return fw.Instance{Body: body, Outcome: rec.Trace, Check: func(r *vrt.Result) []fw.Violation {
					var out []fw.Violation
					for _, rt := range rets {
						if rt.handled {
							continue
						}
						if mode == h.Eventually && len(hooks.Dropped) > 0 {
							continue // an eventually-safe destination may drop instead of waiting, and says so
						}
						out = append(out, fw.V("pushed/"+modeName(mode)+"-destination/next-returned-before-handled/early", fmt.Sprintf("Next(%d) returned before the observer had finished handling it (trace [%s], dropped %v)", rt.v, rec.Trace(), hooks.Dropped)))
					}
					return out
				}}
			}})
		}
	}})
	return scns
}

// ---------------------------------------------------------------- C09 extras: creation operators and subjects
// c09ItemContexts: operators that hand values over to timers or other goroutines keep each value together
// with the context it arrived with (1:1 operators: the item marker of delivered value k is the marker the
// source attached to value k), under every schedule of those goroutines within the bound.
func c09ItemContexts(tier string) []fw.Scenario {
	bound := 2
	if tier == "thorough" {
		bound = 3
	}
	ops := []struct {
		name string
		op   func(ro.Observable[int]) ro.Observable[int]
	}{
		{"Delay(0)", ro.Delay[int](0)},
		{"Delay(1u)", ro.Delay[int](u)},
		{"DelayEach(1u)", ro.DelayEach[int](u)},
		{"ObserveOn(1)", ro.ObserveOn[int](1)},
		{"ObserveOn(2)", ro.ObserveOn[int](2)},
		{"SubscribeOn(2)", ro.SubscribeOn[int](2)},
		{"Timeout(10u)", ro.Timeout[int](10 * u)},
		{"Serialize", ro.Serialize[int]()},
		{"Delay(1u)|Map", func(o ro.Observable[int]) ro.Observable[int] {
			return ro.Map(func(v int) int { return v })(ro.Delay[int](u)(o))
		}},
		{"ThrowOnContextCancel", ro.ThrowOnContextCancel[int]()},
	}
	words := [][]h.Ev{{h.Nx(1), h.Nx(2), h.Co()}, {h.Nx(1), h.Nx(2), h.Nx(3)}, {h.Nx(1), h.Er(h.ErrSrc)}}
	var scns []fw.Scenario
	for _, op := range ops {
		op := op
		scns = append(scns, fw.Scenario{ID: "C09/item-context/" + op.name, Group: "item-context", Run: func(c *fw.Ctx) {
			for _, w := range words {
				for _, slow := range []bool{false, true} {
					w, slow := w, slow
					nm := fmt.Sprintf("%s:[%s] slow-observer=%v", op.name, h.Word(w), slow)
					c.Explore(fw.Case{Name: nm, Bound: bound, Opts: vrt.Options{Horizon: 40000, MaxTime: int64(20 * u), DelayBounded: strings.HasPrefix(op.name, "ObserveOn") || strings.HasPrefix(op.name, "SubscribeOn")}, Make: func() fw.Instance {
						rec := h.NewRec("out")
						if slow {
							rec.Hook = func(r *h.Rec, idx int, e h.Ev) {
								if e.K == h.N && idx == 0 {
									vrt.HSleep(int64(3 * u))
								}
							}
						}
						body := func() {
							src := h.NewSrc("src")
							o, push := h.Pushed[int](src, h.Unsafe)
							vrt.GoNamed("subscribe", func() { sub(op.op(o), rec) })
							vrt.Point(vrt.OpUser, 0, func() bool { k, _, _, _ := src.Get(); return k > 0 })
							for _, e := range w {
								push.Emit(e)
							}
						}
						return fw.Instance{Body: body, Outcome: func() string { return ctxOutcomeOf(rec) }, Check: func(r *vrt.Result) []fw.Violation {
							var out []fw.Violation
							sig := "item-context/" + op.name
							for _, en := range rec.Log {
								kind := [...]string{"next", "error", "complete"}[en.K]
								if en.CtxNil {
									return append(out, fw.V(sig+"/nil-context/"+kind, fmt.Sprintf("%s: the %s callback received a nil context", nm, kind)))
								}
								if en.Sub != "sub" {
									return append(out, fw.V(sig+"/subscription-value-lost/"+kind, fmt.Sprintf("%s: the value attached at SubscribeWithContext is not visible in the %s callback (%s)", nm, kind, en.Ev.Short())))
								}
								if en.K == h.N {
									want := en.V.(int) - 1 // the k-th pushed value is k+1 and carries item marker k
									if en.Item != want {
										return append(out, fw.V(sig+"/item-context-of-another-notification/next", fmt.Sprintf("%s: value %v was delivered with the context of item %v (its own is item %d); trace %s", nm, en.V, en.Item, want, ctxOutcomeOf(rec))))
									}
								}
							}
							return out
						}}
					}})
				}
			}
		}})
	}
	return scns
}

func ctxOutcomeOf(rec *h.Rec) string {
	var sb strings.Builder
	for _, en := range rec.Log {
		fmt.Fprintf(&sb, "%s[item=%v] ", en.Ev.Short(), en.Item)
	}
	return sb.String()
}

// c09ShareReconnect: a shared observable that has been reset connects its source again with the context of
// the subscriber that causes the new connection, not with a context remembered from an earlier one.
func c09ShareReconnect() []fw.Scenario {
	type cfg struct {
		name  string
		build func(ro.Observable[int]) ro.Observable[int]
	}
	cfgs := []cfg{
		{"Share()", func(s ro.Observable[int]) ro.Observable[int] { return ro.Share[int]()(s) }},
		{"ShareReplayWithConfig(1,zero)", func(s ro.Observable[int]) ro.Observable[int] {
			return ro.ShareReplayWithConfig[int](1, ro.ShareReplayConfig{ResetOnRefCountZero: true})(s)
		}},
		{"ShareWithConfig(publish,all resets)", func(s ro.Observable[int]) ro.Observable[int] {
			return ro.ShareWithConfig(ro.ShareConfig[int]{Connector: func() ro.Subject[int] { return ro.NewPublishSubject[int]() }, ResetOnError: true, ResetOnComplete: true, ResetOnRefCountZero: true})(s)
		}},
	}
	var scns []fw.Scenario
	for _, cf := range cfgs {
		cf := cf
		scns = append(scns, fw.Scenario{ID: "C09/share-reconnect/" + cf.name, Group: "Share", Run: func(c *fw.Ctx) {
			for _, how := range []string{"unsubscribe", "source-completes", "source-fails"} {
				how := how
				if how == "source-completes" && strings.HasPrefix(cf.name, "ShareReplayWithConfig") {
					continue // (no reset on completion in that configuration: later subscribers replay, nothing reconnects)
				}
				nm := cf.name + ": subscribe(ctx a), " + how + ", subscribe(ctx b), subscribe(ctx c)"
				c.Explore(fw.Case{Name: nm, Make: func() fw.Instance {
					recs := []*h.Rec{h.NewRec("a"), h.NewRec("b"), h.NewRec("c")}
					src := h.NewSrc("src")
					body := func() {
						o, push := h.Pushed[int](src, h.Unsafe)
						shared := cf.build(o)
						with := func(m string) ctxT { return context.WithValue(context.Background(), h.KeySub, m) }
						subs := make([]ro.Subscription, 3)
						for i, m := range []string{"a", "b", "c"} {
							subs[i] = shared.SubscribeWithContext(with(m), h.Observer[int](recs[i]))
							push.Next(i + 1)
							switch how {
							case "unsubscribe":
								subs[i].Unsubscribe()
							case "source-completes":
								push.Complete()
							default:
								push.Error(h.ErrSrc)
							}
						}
					}
					return fw.Instance{Body: body, Outcome: func() string { return recs[0].Trace() + "|" + recs[1].Trace() + "|" + recs[2].Trace() }, Check: func(r *vrt.Result) []fw.Violation {
						var out []fw.Violation
						sig := "share-reconnect/" + cf.name
						want := []interface{}{"a", "b", "c"}
						if fmt.Sprint(src.SubMarks) != fmt.Sprint(want) {
							out = append(out, fw.V(sig+"/source-connected-with-stale-context/"+how, fmt.Sprintf("%s: the source was subscribed with the context markers %v, the subscribers that caused the connections carried %v", nm, src.SubMarks, want)))
						}
						for i, rec := range recs {
							for _, en := range rec.Log {
								if en.K == h.N && en.Sub != want[i] {
									out = append(out, fw.V(sig+"/value-with-another-subscribers-context/"+how, fmt.Sprintf("%s: subscriber %v received %s with the context marker %v", nm, want[i], en.Ev.Short(), en.Sub)))
									return out
								}
							}
						}
						return out
					}}
				}})
			}
		}})
	}
	return scns
}

func c09Extra(tier string) []fw.Scenario {
	type prog struct {
		name string
		mk   func() func(ctx ctxT, rec *h.Rec)
	}
	mkObs := func(o func() ro.Observable[int]) func() func(ctx ctxT, rec *h.Rec) {
		return func() func(ctx ctxT, rec *h.Rec) {
			return func(ctx ctxT, rec *h.Rec) { o().SubscribeWithContext(ctx, h.Observer[int](rec)) }
		}
	}
	progs := []prog{
		{"Just", mkObs(func() ro.Observable[int] { return ro.Just(1, 2) })},
		{"Of", mkObs(func() ro.Observable[int] { return ro.Of(1, 2) })},
		{"FromSlice", mkObs(func() ro.Observable[int] { return ro.FromSlice([]int{1}, []int{2}) })},
		{"Empty", mkObs(func() ro.Observable[int] { return ro.Empty[int]() })},
		{"Throw", mkObs(func() ro.Observable[int] { return ro.Throw[int](h.ErrSrc) })},
		{"Start", mkObs(func() ro.Observable[int] { return ro.Start(func() int { return 1 }) })},
		{"Defer", mkObs(func() ro.Observable[int] { return ro.Defer(func() ro.Observable[int] { return ro.Just(1) }) })},
		{"Repeat", mkObs(func() ro.Observable[int] { return ro.Repeat(7, 2) })},
		{"Range|Map", mkObs(func() ro.Observable[int] { return ro.Map(func(v int64) int { return int(v) })(ro.Range(0, 3)) })},
		{"Future", mkObs(func() ro.Observable[int] { return ro.Future(func() (int, error) { return 1, nil }) })},
		{"Future(error)", mkObs(func() ro.Observable[int] { return ro.Future(func() (int, error) { return 0, h.ErrSrc }) })},
		{"Merge(Just,Just)", mkObs(func() ro.Observable[int] { return ro.Merge(ro.Just(1), ro.Just(2)) })},
		{"Concat(Just,Just)", mkObs(func() ro.Observable[int] { return ro.Concat(ro.Just(1), ro.Just(2)) })},
		{"Zip2|Map", mkObs(func() ro.Observable[int] {
			return ro.Map(func(t tup2T) int { return t.A })(ro.Zip2(ro.Just(1, 2), ro.Just(3, 4)))
		})},
		{"CombineLatest2|Map", mkObs(func() ro.Observable[int] {
			return ro.Map(func(t tup2T) int { return t.A })(ro.CombineLatest2(ro.Just(1, 2), ro.Just(3, 4)))
		})},
		{"Just|ObserveOn(1)", mkObs(func() ro.Observable[int] { return ro.ObserveOn[int](1)(ro.Just(1, 2)) })},
		{"Just|SubscribeOn(1)", mkObs(func() ro.Observable[int] { return ro.SubscribeOn[int](1)(ro.Just(1, 2)) })},
		{"Just|Delay(1u)", mkObs(func() ro.Observable[int] { return ro.Delay[int](u)(ro.Just(1, 2)) })},
		{"Interval|Take(2)|Map", mkObs(func() ro.Observable[int] {
			return ro.Map(func(v int64) int { return int(v) })(ro.Take[int64](2)(ro.Interval(u)))
		})},
		{"Timer|Map", mkObs(func() ro.Observable[int] { return ro.Map(func(timeDur) int { return 1 })(ro.Timer(u)) })},
		{"Just|Share", mkObs(func() ro.Observable[int] { return ro.Share[int]()(ro.Just(1, 2)) })},
		{"Just|BufferWithCount(1)|Flatten", mkObs(func() ro.Observable[int] {
			return ro.Flatten[int]()(ro.BufferWithCount[int](1)(ro.Just(1, 2)))
		})},
		{"Just|GroupBy|MergeAll", mkObs(func() ro.Observable[int] {
			return ro.MergeAll[int]()(ro.GroupBy(func(v int) int { return v % 2 })(ro.Just(1, 2, 3)))
		})},
		{"Just|Retry", mkObs(func() ro.Observable[int] { return ro.Retry[int]()(ro.Just(1)) })},
	}
	scns := c09ItemContexts(tier)
	scns = append(scns, c09ShareReconnect()...)
	// the concurrent drivers of C02 and C05, judged by the context clauses: a context can also be lost in
	// a window between two goroutines (every subscription of those drivers carries the subscription marker)
	ctxOracle := func(recs []*h.Rec, r *vrt.Result) []fw.Violation {
		var out []fw.Violation
		for _, rec := range recs {
			for _, en := range rec.Log {
				kind := [...]string{"next", "error", "complete"}[en.K]
				if en.CtxNil {
					return append(out, fw.V("concurrent/any/nil-context/"+kind, fmt.Sprintf("observer %s: the %s callback received a nil context (trace [%s])", rec.Name, kind, rec.Trace())))
				}
				if en.Sub != "sub" && rec.Name == "out" {
					return append(out, fw.V("concurrent/any/subscription-value-lost/"+kind, fmt.Sprintf("observer %s: the value attached at SubscribeWithContext is not visible in the %s callback (%s; trace [%s])", rec.Name, kind, en.Ev.Short(), rec.Trace())))
				}
			}
		}
		return out
	}
	for _, prop := range []string{"C02", "C05"} {
		for _, sc := range Registry[prop](tier) {
			sc := sc
			if prop == "C05" && !strings.HasPrefix(sc.ID, "C05/conc/") {
				continue
			}
			if prop == "C02" && (!strings.HasSuffix(sc.ID, "/bare") || strings.Contains(sc.ID, "Subject/")) {
				continue // subjects are hot: their values carry the producer's context, not the subscriber's
			}
			orig := sc.Run
			grp := sc.Group
			scns = append(scns, fw.Scenario{ID: "C09/conc/" + sc.ID, Group: sc.Group, Run: func(c *fw.Ctx) {
				fw.AltCheck = func(recs []*h.Rec, r *vrt.Result) []fw.Violation {
					vs := ctxOracle(recs, r)
					for i := range vs {
						vs[i].Signature = strings.Replace(vs[i].Signature, "/any/", "/"+grp+"/", 1)
					}
					return vs
				}
				defer func() { fw.AltCheck = nil }()
				orig(c)
			}})
		}
	}
	for _, p := range progs {
		p := p
		scns = append(scns, fw.Scenario{ID: "C09/creation/" + p.name, Group: "creation", Run: func(c *fw.Ctx) {
			c.Explore(fw.Case{Name: p.name, Opts: vrt.Options{MaxTime: int64(10 * u)}, Make: func() fw.Instance {
				rec := h.NewRec("out")
				body := func() {
					run := p.mk()
					vrt.GoNamed("subscribe", func() { run(ctxWith(), rec) })
				}
				return fw.Instance{Body: body, Outcome: rec.Trace, Check: func(r *vrt.Result) []fw.Violation {
					var out []fw.Violation
					for _, en := range rec.Log {
						kind := [...]string{"next", "error", "complete"}[en.K]
						if en.CtxNil {
							out = append(out, fw.V("seq/"+p.name+"/nil-context/"+kind, fmt.Sprintf("the %s callback received a nil context", kind)))
							break
						}
						if en.Sub != "sub" {
							out = append(out, fw.V("seq/"+p.name+"/subscription-value-lost/"+kind, fmt.Sprintf("the value attached at SubscribeWithContext is not visible in the %s callback (%s)", kind, en.Ev.Short())))
							break
						}
					}
					if rec.Len() == 0 {
						out = append(out, fw.V("seq/"+p.name+"/nothing-delivered/empty", "no notification at all"))
					}
					return out
				}}
			}})
		}})
	}
	return scns
}

// ---------------------------------------------------------------- C12 concurrent: two threads subscribe to one pipeline
func c12Concurrent(tier string) []fw.Scenario {
	bound := 1
	if tier == "thorough" {
		bound = 2
	}
	var scns []fw.Scenario
	for _, row := range cat.AllRows() {
		row := row
		if row.IntChain == nil || row.Has(cat.Blocking) {
			continue
		}
		scns = append(scns, fw.Scenario{ID: "C12/conc/" + row.Name, Group: row.Family, Run: func(c *fw.Ctx) {
			for _, w := range [][]h.Ev{wordC(1, 2), wordE(2, 1), wordC(1, 1, 2)} {
				w := w
				c.Explore(fw.Case{Name: "two-subscribers:" + h.Word(w), Bound: bound, Make: func() fw.Instance {
					recs := []*h.Rec{h.NewRec("a"), h.NewRec("b")}
					recs[0].YieldIn, recs[1].YieldIn = true, true
					fresh := h.NewRec("fresh")
					src := h.NewSrc("src")
					body := func() {
						pipeline := row.IntChain(cat.NewEnv())(h.Script[int](src, h.Unsafe, w))
						row.IntChain(cat.NewEnv())(h.Script[int](h.NewSrc("f"), h.Unsafe, w)).Subscribe(h.Observer[int](fresh))
						for i := range recs {
							i := i
							vrt.GoNamed("subscriber", func() { pipeline.Subscribe(h.Observer[int](recs[i])) })
						}
					}
					return fw.Instance{Body: body, Outcome: func() string { return recs[0].Trace() + "|" + recs[1].Trace() }, Nontrivial: func(r *vrt.Result) bool { return r.Switches > 1 }, Check: func(r *vrt.Result) []fw.Violation {
						var out []fw.Violation
						for _, rc := range recs {
							if !h.SameTrace(rc.Events(), fresh.Events()) {
								out = append(out, fw.V("concurrent/"+row.Name+"/concurrent-subscription-differs/"+diffClass(rc.Events(), fresh.Events()), fmt.Sprintf("input [%s]: one of two concurrent subscribers received [%s]; a fresh pipeline delivers [%s]", h.Word(w), rc.Trace(), fresh.Trace())))
								break
							}
						}
						want := 2
						if row.Subs != nil {
							want = 2 * row.Subs(w)
						}
						if n, _, _, _ := src.Get(); n != want {
							out = append(out, fw.V("concurrent/"+row.Name+"/source-subscription-count/mismatch", fmt.Sprintf("input [%s]: two subscriptions subscribed the source %d times (definition %d)", h.Word(w), n, want)))
						}
						return out
					}}
				}})
			}
		}})
	}
	return scns
}
