package checks

import (
	"errors"
	"fmt"

	"github.com/samber/ro"
	"verif.local/harness/fw"
	"verif.local/harness/h"
	"verif.local/vrt"
)

// c07HandOff: a source error travelling through the operators that move delivery to another goroutine
// (ObserveOn, SubscribeOn) with queues of 1 and 2 places, k = 0..n+2 values in front of the error, an observer
// that takes one unit of virtual time per value, every schedule of producer / consumer / clock within the bound:
// the subscriber receives the source's Error exactly once (after a prefix of the values), whatever the filling
// of the queue at the instant of the failure.
func c07HandOff(tier string) []fw.Scenario {
	bound := 1
	if tier == "thorough" {
		bound = 2
	}
	var scns []fw.Scenario
	for _, n := range []int{1, 2} {
		for _, kind := range []string{"ObserveOn", "SubscribeOn"} {
			n, kind := n, kind
			name := fmt.Sprintf("%s(%d)", kind, n)
			scns = append(scns, fw.Scenario{ID: "C07/handoff-source-error/" + name, Group: "handoff", Run: func(c *fw.Ctx) {
				for k := 0; k <= n+2; k++ {
					for _, slow := range []bool{false, true} {
						k, slow := k, slow
						var word []h.Ev
						for i := 1; i <= k; i++ {
							word = append(word, h.Nx(i))
						}
						word = append(word, h.Er(h.ErrSrc))
						c.Explore(fw.Case{Name: fmt.Sprintf("%d values then error, slow observer=%v", k, slow), Bound: bound, Opts: vrt.Options{Horizon: 40000, MaxTime: int64(20 * u), DelayBounded: true}, Make: func() fw.Instance {
							rec := h.NewRec("out")
							if slow {
								rec.Hook = func(r *h.Rec, idx int, e h.Ev) {
									if e.K == h.N {
										vrt.HSleep(int64(u))
									}
								}
							}
							var hooks *h.Hooks
							var escaped string
							body := func() {
								hooks = h.BeginHooks()
								src := h.Script[int](h.NewSrc("src"), h.Unsafe, word)
								var p ro.Observable[int]
								if kind == "ObserveOn" {
									p = ro.ObserveOn[int](n)(src)
								} else {
									p = ro.SubscribeOn[int](n)(src)
								}
								vrt.GoNamed("subscribe", func() { guard(&escaped, "Subscribe", func() { sub(p, rec) }) })
							}
							return fw.Instance{Body: body, Outcome: rec.Trace, Check: func(r *vrt.Result) []fw.Violation {
								sig := "handoff-source-error/" + name
								where := fmt.Sprintf("%s over [%s]", name, h.Word(word))
								if escaped != "" {
									return []fw.Violation{fw.V(sig+"/panic-escaped-to-caller/subscribe", where+": "+escaped)}
								}
								if r.Crash != nil {
									return []fw.Violation{fw.V(sig+"/goroutine-top-panic/"+r.Crash.Name, where+": "+r.Crash.Value)}
								}
								if r.HorizonHit {
									return nil
								}
								evs := rec.Events()
								if g := h.GrammarError(evs); g != "" {
									return []fw.Violation{fw.V(sig+"/grammar/"+grammarClass(evs), where+": "+g)}
								}
								_, end := splitEv(evs)
								switch {
								case end == nil:
									cls := "swallowed"
									if len(hooks.Unhandled) > 0 {
										cls = "sent-to-unhandled-hook-only"
									}
									return []fw.Violation{fw.V(sig+"/no-error-notification/"+cls, fmt.Sprintf("%s: the subscriber received [%s] and no Error notification (%s)", where, rec.Trace(), blockedSummary(r)))}
								case end.K != h.E:
									return []fw.Violation{fw.V(sig+"/no-error-notification/completed-instead", fmt.Sprintf("%s: the subscriber received [%s]", where, rec.Trace()))}
								case !errors.Is(end.Err, h.ErrSrc):
									return []fw.Violation{fw.V(sig+"/error-cause-lost/other", fmt.Sprintf("%s: the subscriber received [%s]", where, rec.Trace()))}
								}
								return nil
							}}
						}})
					}
				}
			}})
		}
	}
	return scns
}
