package checks

import (
	"context"
	"fmt"

	"github.com/samber/ro"
	"verif.local/harness/fw"
	"verif.local/harness/h"
	"verif.local/vrt"
)

// c09ContextReset: the one operator that replaces contexts by design. Behind ContextReset(c) every callback
// must see c (its marker value), behind ContextReset(nil) a non-nil context; the source is still subscribed
// with the subscriber's context.
func c09ContextReset() fw.Scenario {
	return fw.Scenario{ID: "C09/ContextReset", Group: "ContextReset", Run: func(c *fw.Ctx) {
		for _, withNil := range []bool{false, true} {
			for _, w := range [][]h.Ev{wordC(1, 2), wordE(1), wordC(), wordE()} {
				withNil, w := withNil, w
				c.Explore(fw.Case{Name: fmt.Sprintf("reset(nil=%v):%s", withNil, h.Word(w)), Opts: vrt.Options{Horizon: 20000}, Make: func() fw.Instance {
					rec := h.NewRec("out")
					src := h.NewSrc("src")
					body := func() {
						var nc context.Context
						if !withNil {
							nc = context.WithValue(context.Background(), h.KeyMid, "mid")
						}
						p := ro.ContextReset[int](nc)(h.Script[int](src, h.Unsafe, w))
						sub(p, rec)
					}
					return fw.Instance{Body: body, Outcome: rec.Trace, Check: func(r *vrt.Result) []fw.Violation {
						var out []fw.Violation
						if src.SubCtxNil {
							out = append(out, fw.V("seq/ContextReset/source-subscribed-with-nil-context/nil", "the source was subscribed with a nil context"))
						}
						for _, en := range rec.Log {
							kind := [...]string{"next", "error", "complete"}[en.K]
							if en.CtxNil {
								out = append(out, fw.V("seq/ContextReset/nil-context/"+kind, fmt.Sprintf("ContextReset(nil=%v), input [%s]: the %s callback received a nil context", withNil, h.Word(w), kind)))
							} else if !withNil && en.Mid != "mid" {
								out = append(out, fw.V("seq/ContextReset/new-context-not-delivered/"+kind, fmt.Sprintf("ContextReset(c), input [%s]: the %s callback does not see the value of c", h.Word(w), kind)))
							}
						}
						if !h.SameTrace(rec.Events(), w) {
							out = append(out, fw.V("seq/ContextReset/trace/"+diffClass(rec.Events(), w), fmt.Sprintf("input [%s]: delivered [%s]", h.Word(w), rec.Trace())))
						}
						return out
					}}
				}})
			}
		}
	}}
}
