package checks

import (
	"fmt"
	"github.com/samber/ro"

	"verif.local/harness/cat"
	"verif.local/harness/fw"
	"verif.local/harness/h"
	"verif.local/vrt"
)

// C04 - each operator computes its documented function. For every catalogue row and every legal input
// script up to a bounded length (three endings), the trace delivered to the final observer must equal
// the reference model's output - checked both on a cold synchronous source (whole script) and on a
// pushed source after every single notification (so the model is compared on every prefix).

func legalWords(row cat.Row, maxVals int) [][]h.Ev {
	vals := row.Vals
	if vals == nil {
		vals = []interface{}{1, 2}
	}
	return h.Legal(vals, maxVals, []h.Kind{h.C, h.E}, true)
}

func seqOpts(row cat.Row) vrt.Options {
	o := vrt.Options{Horizon: 20000}
	if row.MaxTime > 0 {
		o.MaxTime = row.MaxTime
	}
	return o
}

// modelCase runs one word through a row on a cold source and compares with the model.
func modelCase(prop string, row cat.Row, word []h.Ev) fw.Case {
	return fw.Case{Name: "cold:" + h.Word(word), Opts: seqOpts(row), Make: func() fw.Instance {
		rec := h.NewRec("out")
		body := func() {
			row.Start(cat.Setup{Kind: cat.SrcScript, Word: word, Rec: rec})
		}
		return fw.Instance{Body: body, Outcome: rec.Trace, Check: func(r *vrt.Result) []fw.Violation {
			want := row.Model(word)
			got := rec.Events()
			if h.SameTrace(got, want) {
				return nil
			}
			sig := "seq/" + row.Name + "/model/" + diffClass(got, want)
			detail := fmt.Sprintf("input [%s]: delivered [%s], documented meaning gives [%s]%s", h.Word(word), h.Word(got), h.Word(want), runNote(r))
			if row.Pinned != "" {
				return []fw.Violation{fw.Pinned(sig, detail+" (pinned: "+row.Pinned+")")}
			}
			return []fw.Violation{fw.V(sig, detail)}
		}}
	}}
}

func runNote(r *vrt.Result) string {
	s := ""
	if r.HorizonHit {
		s += "; step horizon hit (non-termination)"
	}
	if r.Crash != nil {
		s += "; goroutine-top panic: " + r.Crash.Value
	}
	if len(r.Blocked) > 0 {
		s += "; blocked: " + blockedSummary(r)
	}
	return s
}

// diffClass classifies a model mismatch (witness class of the signature).
func diffClass(got, want []h.Ev) string {
	gv, ge := splitEv(got)
	wv, we := splitEv(want)
	switch {
	case h.GrammarError(got) != "":
		return "grammar"
	case !sameVals(gv, wv) && len(gv) < len(wv):
		return "value-missing"
	case !sameVals(gv, wv) && len(gv) > len(wv):
		return "value-extra"
	case !sameVals(gv, wv):
		return "value-wrong"
	case ge == nil && we != nil:
		return "terminal-missing"
	case ge != nil && we == nil:
		return "terminal-extra"
	default:
		return "terminal-wrong"
	}
}

func splitEv(evs []h.Ev) (vals []h.Ev, end *h.Ev) {
	for i := range evs {
		if evs[i].K == h.N {
			vals = append(vals, evs[i])
		} else if end == nil {
			e := evs[i]
			end = &e
		}
	}
	return
}

func sameVals(a, b []h.Ev) bool { return h.SameTrace(a, b) }

// prefixCase pushes the word notification by notification and compares after each one.
func prefixCase(row cat.Row, word []h.Ev) fw.Case {
	return fw.Case{Name: "pushed:" + h.Word(word), Opts: seqOpts(row), Make: func() fw.Instance {
		rec := h.NewRec("out")
		var viol []fw.Violation
		body := func() {
			live := row.Start(cat.Setup{Kind: cat.SrcPushed, Rec: rec})
			for i, e := range word {
				live.Emit(e)
				want := row.Model(word[:i+1])
				got := rec.Events()
				if !h.SameTrace(got, want) && len(viol) == 0 {
					sig := "pushed/" + row.Name + "/model-after-each-next/" + diffClass(got, want)
					detail := fmt.Sprintf("after pushing [%s]: delivered [%s], documented meaning gives [%s]", h.Word(word[:i+1]), h.Word(got), h.Word(want))
					if row.Pinned != "" {
						viol = append(viol, fw.Pinned(sig, detail))
					} else {
						viol = append(viol, fw.V(sig, detail))
					}
				}
			}
			live.Sub.Unsubscribe()
		}
		return fw.Instance{Body: body, Outcome: rec.Trace, Check: func(r *vrt.Result) []fw.Violation { return viol }}
	}}
}

func gridCase(name, op string, want []h.Ev, run func(rec *h.Rec)) fw.Case {
	return fw.Case{Name: name, Make: func() fw.Instance {
		rec := h.NewRec("out")
		return fw.Instance{Body: func() { run(rec) }, Outcome: rec.Trace, Check: func(r *vrt.Result) []fw.Violation {
			if rec.Trace() != h.Word(want) {
				return []fw.Violation{fw.V("creation/"+op+"/output-vs-definition/"+diffClass(rec.Events(), want), fmt.Sprintf("%s delivered [%s]; the definition gives [%s]", name, rec.Trace(), h.Word(want)))}
			}
			return nil
		}}
	}}
}

func init() {
	Registry["C04"] = func(tier string) []fw.Scenario {
		maxVals := 3
		if tier == "thorough" {
			maxVals = 8
		}
		var scns []fw.Scenario
		rows := cat.AllRows()
		addRow := func(row cat.Row, maxVals int) {
			scns = append(scns, fw.Scenario{ID: "C04/" + row.Name, Group: row.Family, Run: func(c *fw.Ctx) {
				for _, w := range legalWords(row, maxVals) {
					c.Explore(modelCase("C04", row, w))
					if row.Has(cat.Sync) && !row.Has(cat.Blocking) {
						c.Explore(prefixCase(row, w))
					}
				}
			}})
		}
		for _, row := range rows {
			mv := maxVals
			if len(row.Vals) > 3 && mv > 2 {
				mv = 2
				if tier == "thorough" {
					mv = 3
				}
			}
			addRow(row, mv)
		}
		// parameter grids of the creation operators whose output is a function of numbers: every start / end
		// in -3..3 (thorough -5..5) and steps that do and do not divide the width
		lim := int64(3)
		if tier == "thorough" {
			lim = 5
		}
		scns = append(scns, fw.Scenario{ID: "C04/creation-grid/Range", Group: "Range", Run: func(c *fw.Ctx) {
			for a := -lim; a <= lim; a++ {
				for b := -lim; b <= lim; b++ {
					a, b := a, b
					var want []h.Ev
					if a < b {
						for x := a; x < b; x++ {
							want = append(want, h.Nx(x))
						}
					} else {
						for x := a; x > b; x-- {
							want = append(want, h.Nx(x))
						}
					}
					want = append(want, h.Co())
					c.Explore(gridCase(fmt.Sprintf("Range(%d,%d)", a, b), "Range", want, func(rec *h.Rec) { ro.Range(a, b).Subscribe(h.Observer[int64](rec)) }))
				}
			}
		}})
		scns = append(scns, fw.Scenario{ID: "C04/creation-grid/RangeWithStep", Group: "Range", Run: func(c *fw.Ctx) {
			for a := -lim; a <= lim; a++ {
				for b := -lim; b <= lim; b++ {
					for _, step := range []float64{0.5, 1, 1.5, 2, 2.5, 3, 7} {
						a, b, step := float64(a), float64(b), step
						var want []h.Ev
						// [start, end): start, start+-step, ... while still short of end (documented half-open range)
						if a < b {
							for k := 0; a+float64(k)*step < b; k++ {
								want = append(want, h.Nx(a+float64(k)*step))
							}
						} else {
							for k := 0; a-float64(k)*step > b; k++ {
								want = append(want, h.Nx(a-float64(k)*step))
							}
						}
						want = append(want, h.Co())
						c.Explore(gridCase(fmt.Sprintf("RangeWithStep(%v,%v,%v)", a, b, step), "RangeWithStep", want, func(rec *h.Rec) {
							ro.RangeWithStep(a, b, step).Subscribe(h.Observer[float64](rec))
						}))
					}
				}
			}
		}})
		// a chain behaves as the composition of its parts: all ordered pairs of chainable rows
		chain := cat.ChainRows()
		pairVals := 2
		if tier == "thorough" {
			pairVals = 5
		}
		for _, a := range chain {
			for _, b := range chain {
				addRow(cat.Pair(a, b), pairVals)
			}
		}
		return scns
	}
}
