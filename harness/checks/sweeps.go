package checks

import (
	"context"
	"fmt"
	"strings"

	"verif.local/harness/cat"
	"verif.local/harness/fw"
	"verif.local/harness/h"
	"verif.local/vrt"
)

// allWords: every word over {N1, N2, E, C} up to maxLen, illegal suffixes included.
func allWords(row cat.Row, maxLen int) [][]h.Ev {
	vals := row.Vals
	if vals == nil {
		vals = []interface{}{1, 2}
	}
	if len(vals) > 2 {
		vals = vals[:2]
	}
	var alpha []h.Ev
	for _, v := range vals {
		alpha = append(alpha, h.Nx(v))
	}
	alpha = append(alpha, h.Er(h.ErrSrc), h.Co())
	return h.Words(alpha, maxLen)
}

func isLegal(w []h.Ev) bool { return len(h.LegalPrefix(w)) == len(w) }

func modeName(m h.Mode) string { return [...]string{"unsafe", "safe", "eventually"}[m] }

// ---------------------------------------------------------------- C01 sequential

// c01Case plays an arbitrary word (legal or not) through a row and checks the grammar of what the final
// observer received; then plays the legal prefix alone and requires the same trace (late notifications
// are discarded, never delivered) and that the dropped-notification hook saw the late ones.
func c01Case(row cat.Row, word []h.Ev, mode h.Mode) fw.Case {
	return fw.Case{Name: modeName(mode) + ":" + h.Word(word), Opts: seqOpts(row), Make: func() fw.Instance {
		rec, rec2 := h.NewRec("out"), h.NewRec("legalprefix")
		var dropped1, dropped2, subs int
		legal := h.LegalPrefix(word)
		late := len(word) - len(legal)
		body := func() {
			hk := h.BeginHooks()
			l := row.Start(cat.Setup{Kind: cat.SrcScript, Word: word, Mode: mode, Rec: rec})
			dropped1 = len(hk.Dropped)
			subs, _, _, _ = l.Src.Get()
			if late > 0 {
				hk2 := h.BeginHooks()
				row.Start(cat.Setup{Kind: cat.SrcScript, Word: legal, Mode: mode, Rec: rec2})
				dropped2 = len(hk2.Dropped)
			}
		}
		return fw.Instance{Body: body, Outcome: rec.Trace, Check: func(r *vrt.Result) []fw.Violation {
			var out []fw.Violation
			if g := h.GrammarError(rec.Events()); g != "" {
				out = append(out, fw.V("seq/"+row.Name+"/grammar/"+grammarClass(rec.Events()), fmt.Sprintf("producer script [%s] (%s source): %s", h.Word(word), modeName(mode), g)))
			}
			if late > 0 && len(r.Blocked) == 0 && !r.HorizonHit {
				if !h.SameTrace(rec.Events(), rec2.Events()) {
					out = append(out, fw.V("seq/"+row.Name+"/late-notification-delivered/"+diffClass(rec.Events(), rec2.Events()),
						fmt.Sprintf("producer script [%s] delivered [%s] but its legal prefix [%s] alone delivers [%s]", h.Word(word), rec.Trace(), h.Word(legal), rec2.Trace())))
				}
				if subs > 0 && dropped1 < dropped2+late {
					out = append(out, fw.V("seq/"+row.Name+"/late-notification-not-surfaced/hook",
						fmt.Sprintf("producer script [%s]: %d late notifications, dropped-notification hook calls %d (legal prefix alone: %d)", h.Word(word), late, dropped1, dropped2)))
				}
			}
			return out
		}}
	}}
}

func grammarClass(evs []h.Ev) string {
	for i, e := range evs {
		if e.K != h.N && i != len(evs)-1 {
			if evs[i+1].K == h.N {
				return "value-after-terminal"
			}
			return "second-terminal"
		}
	}
	return "ok"
}

// ---------------------------------------------------------------- C03 sequential

func teardownViolations(kind string, row cat.Row, l *cat.Live, r *vrt.Result, what string) []fw.Violation {
	var out []fw.Violation
	if l == nil {
		return nil
	}
	subs, tears, live, _ := l.Src.Get()
	if tears != subs || live != 0 {
		cls := "source-not-released"
		if tears > subs {
			cls = "teardown-twice"
		}
		out = append(out, fw.V(kind+"/"+row.Name+"/teardown-count/"+cls, fmt.Sprintf("%s: source subscribed %d times, teardown ran %d times, still live %d", what, subs, tears, live)))
	}
	if len(r.Blocked) > 0 {
		out = append(out, fw.V(kind+"/"+row.Name+"/goroutine-left/"+blockedSummary(r), fmt.Sprintf("%s: after the subscription closed these library goroutines are still blocked: %s", what, blockedSummary(r))))
	}
	if r.TimersLeft > 0 {
		out = append(out, fw.V(kind+"/"+row.Name+"/timer-left/armed", fmt.Sprintf("%s: %d timers still armed after the subscription closed", what, r.TimersLeft)))
	}
	return out
}

// c03Cold: cold script ending by itself (C/E) or never (then Unsubscribe from outside).
func c03Cold(row cat.Row, word []h.Ev) fw.Case {
	return fw.Case{Name: "cold:" + h.Word(word), Opts: seqOpts(row), Make: func() fw.Instance {
		rec := h.NewRec("out")
		var l *cat.Live
		body := func() {
			l = row.Start(cat.Setup{Kind: cat.SrcScript, Word: word, Rec: rec})
			if isOpen(word) {
				l.Sub.Unsubscribe()
			}
		}
		return fw.Instance{Body: body, Outcome: rec.Trace, Check: func(r *vrt.Result) []fw.Violation {
			return teardownViolations("seq", row, l, r, "cold source ["+h.Word(word)+"]")
		}}
	}}
}

func isOpen(w []h.Ev) bool { return len(w) == 0 || w[len(w)-1].K == h.N }

// c03Cut: pushed source, Unsubscribe after k notifications - from outside, or from inside the k-th callback.
func c03Cut(row cat.Row, word []h.Ev, k int, inside bool) fw.Case {
	nm := fmt.Sprintf("cut@%d:%s", k, h.Word(word))
	if inside {
		nm = "in-callback-" + nm
	}
	return fw.Case{Name: nm, Opts: seqOpts(row), Make: func() fw.Instance {
		rec := h.NewRec("out")
		var l *cat.Live
		body := func() {
			if inside {
				rec.Hook = func(r *h.Rec, idx int, e h.Ev) {
					if idx == k && l != nil && l.Sub != nil {
						l.Sub.Unsubscribe()
					}
				}
			}
			l = row.Start(cat.Setup{Kind: cat.SrcPushed, Rec: rec})
			for i, e := range word {
				if !inside && i == k {
					l.Sub.Unsubscribe()
				}
				l.Emit(e)
			}
			l.Sub.Unsubscribe()
		}
		return fw.Instance{Body: body, Outcome: rec.Trace, Check: func(r *vrt.Result) []fw.Violation {
			return teardownViolations("pushed", row, l, r, nm)
		}}
	}}
}

// ---------------------------------------------------------------- C08 synchronous part

func c08Case(row cat.Row, word []h.Ev) fw.Case {
	return fw.Case{Name: "pushed:" + h.Word(word), Opts: seqOpts(row), Make: func() fw.Instance {
		rec := h.NewRec("out")
		var viol []fw.Violation
		body := func() {
			me := vrt.Self()
			live := row.Start(cat.Setup{Kind: cat.SrcPushed, Rec: rec})
			for i, e := range word {
				live.Emit(e)
				want := row.Model(word[:i+1])
				got := rec.Events()
				if !h.SameTrace(got, want) && len(viol) == 0 {
					cls := diffClass(got, want)
					v := fw.V("pushed/"+row.Name+"/not-delivered-when-next-returns/"+cls, fmt.Sprintf("after Next/terminal #%d of [%s] returned the observer had [%s]; the output due by then is [%s]", i+1, h.Word(word), h.Word(got), h.Word(want)))
					if row.Pinned != "" {
						v.Pinned = true
					}
					viol = append(viol, v)
				}
			}
			for _, en := range rec.Log {
				if en.Thread != me && len(viol) < 3 {
					viol = append(viol, fw.V("pushed/"+row.Name+"/delivered-on-other-goroutine/thread", fmt.Sprintf("notification %s was delivered on thread %d, the producer runs on thread %d", en.Ev.Short(), en.Thread, me)))
					break
				}
			}
			live.Sub.Unsubscribe()
		}
		return fw.Instance{Body: body, Outcome: rec.Trace, Check: func(r *vrt.Result) []fw.Violation {
			out := viol
			// (BufferWithTimeOrCount keeps a ticker goroutine for its time side: no value travels through it
			// in these scenarios, the period never elapses; the delivery clauses above still apply)
			if r.Threads > 1 && !strings.HasPrefix(row.Family, "BufferWithTime") {
				out = append(out, fw.V("pushed/"+row.Name+"/hidden-goroutine/spawn", fmt.Sprintf("a synchronous pipeline started %d extra goroutine(s)", r.Threads-1)))
			}
			return out
		}}
	}}
}

// ---------------------------------------------------------------- C09

func c09Case(row cat.Row, word []h.Ev, upstreamMid bool) fw.Case {
	nm := "ctx:" + h.Word(word)
	if upstreamMid {
		nm = "ctx+mid:" + h.Word(word)
	}
	return fw.Case{Name: nm, Opts: seqOpts(row), Make: func() fw.Instance {
		rec := h.NewRec("out")
		var l *cat.Live
		env := cat.NewEnv()
		body := func() {
			ctx := context.WithValue(context.Background(), h.KeySub, "sub")
			l = row.Start(cat.Setup{Kind: cat.SrcScript, Word: word, Rec: rec, Ctx: ctx, Env: env})
		}
		return fw.Instance{Body: body, Outcome: func() string {
			var sb strings.Builder
			for _, en := range rec.Log {
				fmt.Fprintf(&sb, "%s[%v %v %v] ", en.Ev.Short(), en.Sub, en.Mid, en.Item)
			}
			return sb.String()
		}, Check: func(r *vrt.Result) []fw.Violation {
			var out []fw.Violation
			add := func(clause, cls, detail string) {
				for _, v := range out {
					if strings.Contains(v.Signature, "/"+clause+"/") {
						return
					}
				}
				out = append(out, fw.V("seq/"+row.Name+"/"+clause+"/"+cls, "input ["+h.Word(word)+"]: "+detail))
			}
			if l != nil {
				if l.Src.SubCtxNil {
					add("source-subscribed-with-nil-context", "nil", "a source was subscribed with a nil context")
				}
				for _, m := range l.Src.SubMarks {
					if m != "sub" {
						add("source-not-subscribed-with-subscriber-context", "marker-lost", "the source's Subscribe context does not carry the value attached at SubscribeWithContext")
					}
				}
			}
			for _, s := range env.CtxNil {
				add("nil-context-in-operator-callback", s, "operator callback "+s+" received a nil context")
			}
			for _, en := range rec.Log {
				kind := [...]string{"next", "error", "complete"}[en.K]
				if en.CtxNil {
					add("nil-context", kind, fmt.Sprintf("the observer's %s callback received a nil context (trace %s)", kind, rec.Trace()))
					continue
				}
				if en.Sub != "sub" {
					add("subscription-value-lost", kind, fmt.Sprintf("the value attached at SubscribeWithContext is not visible in the %s callback (%s)", kind, en.Ev.Short()))
				}
				prefixValue := en.K == h.N && en.Item == nil && row.Has(cat.Creates)
				// a merge ends with the context of its outer observable (the subscriber's), not with the
				// context of whichever source happens to finish last
				mergeTerminal := en.K != h.N && strings.Contains(row.Name, "MergeWith(")
				if upstreamMid && en.Mid != "mid" && !row.Has(cat.NoSubscribe) && !(prefixValue && strings.Contains(row.Name, "StartWith")) && !mergeTerminal {
					add("mid-pipeline-value-lost", kind, fmt.Sprintf("the value attached by an upstream ContextWithValue is not visible in the %s callback (%s)", kind, en.Ev.Short()))
				}
				if en.K == h.N && row.ValueCtx == "" && en.Item == nil && !row.Has(cat.Creation|cat.Creates) {
					add("item-value-lost", kind, fmt.Sprintf("value %s was delivered with a context that carries no per-item value of the source", en.Ev.Short()))
				}
			}
			return out
		}}
	}}
}

// ---------------------------------------------------------------- C12 sequential

func c12Resub(row cat.Row, word []h.Ev) fw.Case {
	return fw.Case{Name: "resubscribe:" + h.Word(word), Opts: seqOpts(row), Make: func() fw.Instance {
		recs := []*h.Rec{h.NewRec("s1"), h.NewRec("s2"), h.NewRec("s3")}
		fresh := h.NewRec("fresh")
		var l *cat.Live
		var subsAfter []int
		body := func() {
			l = row.Start(cat.Setup{Kind: cat.SrcScript, Word: word, Rec: recs[0]})
			n, _, _, _ := l.Src.Get()
			subsAfter = append(subsAfter, n)
			for i := 1; i < 3; i++ {
				l.Resub(recs[i])
				n, _, _, _ := l.Src.Get()
				subsAfter = append(subsAfter, n)
			}
			row.Start(cat.Setup{Kind: cat.SrcScript, Word: word, Rec: fresh})
		}
		return fw.Instance{Body: body, Outcome: func() string { return recs[0].Trace() + "|" + recs[1].Trace() + "|" + recs[2].Trace() }, Check: func(r *vrt.Result) []fw.Violation {
			var out []fw.Violation
			if len(r.Blocked) > 0 || r.HorizonHit {
				return nil // Subscribe never returned (open source under a waiting operator): C14's business
			}
			for i := 0; i < 3; i++ {
				if !h.SameTrace(recs[i].Events(), fresh.Events()) {
					out = append(out, fw.V("seq/"+row.Name+"/resubscription-differs/"+diffClass(recs[i].Events(), fresh.Events()),
						fmt.Sprintf("input [%s]: subscription #%d to the same pipeline received [%s]; a freshly built pipeline delivers [%s]", h.Word(word), i+1, recs[i].Trace(), fresh.Trace())))
					break
				}
			}
			want := 1
			if row.Subs != nil {
				want = row.Subs(word)
			}
			for i, n := range subsAfter {
				if n != want*(i+1) {
					cls := "too-many"
					if n < want*(i+1) {
						cls = "too-few"
					}
					out = append(out, fw.V("seq/"+row.Name+"/source-subscription-count/"+cls, fmt.Sprintf("input [%s]: after %d subscriptions of the pipeline the source has been subscribed %d times (definition: %d per subscription)", h.Word(word), i+1, n, want)))
					break
				}
			}
			return out
		}}
	}}
}

// c12ResubAfter: the source plays word A for the first subscription of the pipeline and word B for the
// second; the second subscription must be what a freshly built pipeline over B delivers - whatever the
// first one went through (an error, an early end) must not be remembered by the pipeline value.
func c12ResubAfter(row cat.Row, a, b []h.Ev) fw.Case {
	return fw.Case{Name: "resubscribe-after:" + h.Word(a) + " then " + h.Word(b), Opts: seqOpts(row), Make: func() fw.Instance {
		r1, r2, f1, f2 := h.NewRec("s1"), h.NewRec("s2"), h.NewRec("fresh1"), h.NewRec("fresh2")
		body := func() {
			cur := a
			l := row.Start(cat.Setup{Kind: cat.SrcScript, WordFn: func() []h.Ev { return cur }, Rec: r1})
			cur = b
			l.Resub(r2)
			row.Start(cat.Setup{Kind: cat.SrcScript, Word: a, Rec: f1})
			row.Start(cat.Setup{Kind: cat.SrcScript, Word: b, Rec: f2})
		}
		return fw.Instance{Body: body, Outcome: func() string { return r1.Trace() + "|" + r2.Trace() }, Check: func(r *vrt.Result) []fw.Violation {
			if len(r.Blocked) > 0 || r.HorizonHit {
				return nil // Subscribe never returned (open source under a waiting operator): C14's business
			}
			if !h.SameTrace(r1.Events(), f1.Events()) {
				return nil // reported by the same-word case
			}
			if !h.SameTrace(r2.Events(), f2.Events()) {
				return []fw.Violation{fw.V("seq/"+row.Name+"/resubscription-remembers-previous-run/"+diffClass(r2.Events(), f2.Events()),
					fmt.Sprintf("first subscription over [%s], second over [%s]: the second received [%s]; a freshly built pipeline over [%s] delivers [%s]", h.Word(a), h.Word(b), r2.Trace(), h.Word(b), f2.Trace()))}
			}
			return nil
		}}
	}}
}

// c12Apply: one operator value applied to three different sources, subscribed in every order.
func c12Apply(row cat.Row, words [3][]h.Ev, order [3]int) fw.Case {
	nm := fmt.Sprintf("apply-order%v:%s/%s/%s", order, h.Word(words[0]), h.Word(words[1]), h.Word(words[2]))
	return fw.Case{Name: nm, Opts: seqOpts(row), Make: func() fw.Instance {
		var recs, fresh [3]*h.Rec
		var srcs [3]*h.Src
		for i := range recs {
			recs[i], fresh[i] = h.NewRec(fmt.Sprint("p", i)), h.NewRec(fmt.Sprint("fresh", i))
			srcs[i] = h.NewSrc(fmt.Sprint("src", i))
		}
		built := false
		subsAtBuild := 0
		body := func() {
			op := row.IntChain(cat.NewEnv())
			obs := [3]func(){}
			for _, i := range order {
				i := i
				p := op(h.Script[int](srcs[i], h.Unsafe, words[i]))
				obs[i] = func() { sub(p, recs[i]) }
			}
			built = true
			for i := range srcs {
				n, _, _, _ := srcs[i].Get()
				subsAtBuild += n
			}
			for _, i := range order {
				obs[i]()
			}
			for i := range words {
				row.Start(cat.Setup{Kind: cat.SrcScript, Word: words[i], Rec: fresh[i]})
			}
		}
		return fw.Instance{Body: body, Outcome: func() string { return recs[0].Trace() + "|" + recs[1].Trace() + "|" + recs[2].Trace() }, Check: func(r *vrt.Result) []fw.Violation {
			var out []fw.Violation
			if !built || len(r.Blocked) > 0 || r.HorizonHit {
				return nil
			}
			if subsAtBuild != 0 {
				out = append(out, fw.V("seq/"+row.Name+"/subscribed-at-construction/eager", "building the pipelines subscribed to a source"))
			}
			for i := range recs {
				if !h.SameTrace(recs[i].Events(), fresh[i].Events()) {
					out = append(out, fw.V("seq/"+row.Name+"/operator-value-shared-state/"+diffClass(recs[i].Events(), fresh[i].Events()),
						fmt.Sprintf("one operator value applied to three sources in order %v: the pipeline over source [%s] delivered [%s]; built on its own it delivers [%s]", order, h.Word(words[i]), recs[i].Trace(), fresh[i].Trace())))
					break
				}
			}
			return out
		}}
	}}
}
