package checks

import (
	"context"
	"fmt"
	"strings"

	"github.com/samber/ro"
	"verif.local/harness/cat"
	"verif.local/harness/fw"
	"verif.local/harness/h"
	"verif.local/vrt"
)

// C14 - downstream termination cancels upstream without waiting for it.
//
// never-ending pushed source -> operator under test -> early-terminating downstream -> recorder.
// Subscribe runs on its own thread (it may wait inside the pipeline); the harness pushes from another
// thread, one value at a time to quiescence; once the terminator has fired nothing more is pushed and the
// source must already be released and the Subscribe call must have returned.

type terminator struct {
	name string
	// wrap appends the terminator; fire (optional) is called by the harness after n values were pushed.
	wrap func(o ro.Observable[int], n int, env *c14env) ro.Observable[int]
	fire func(env *c14env)
}

type c14env struct {
	signal *h.Push[int]
	sigSrc *h.Src
	sub    ro.Subscription
	cancel context.CancelFunc
	ret    bool
}

//go:norace
func (e *c14env) setSub(s ro.Subscription) { e.sub = s; e.ret = true }

//go:norace
func (e *c14env) returned() (ro.Subscription, bool) { return e.sub, e.ret }

func terminators() []terminator {
	return []terminator{
		{name: "Take(n)", wrap: func(o ro.Observable[int], n int, env *c14env) ro.Observable[int] { return ro.Take[int](int64(n))(o) }},
		{name: "ElementAt(n-1)", wrap: func(o ro.Observable[int], n int, env *c14env) ro.Observable[int] { return ro.ElementAt[int](n - 1)(o) }},
		{name: "First(i==n-1)", wrap: func(o ro.Observable[int], n int, env *c14env) ro.Observable[int] {
			return ro.FirstI(func(v int, i int64) bool { return int(i) == n-1 })(o)
		}},
		{name: "MapErr(fails at n)", wrap: func(o ro.Observable[int], n int, env *c14env) ro.Observable[int] {
			return ro.MapErrI(func(v int, i int64) (int, error) {
				if int(i) == n-1 {
					return 0, h.ErrAlt
				}
				return v, nil
			})(o)
		}},
		{name: "TakeUntil(signal)", wrap: func(o ro.Observable[int], n int, env *c14env) ro.Observable[int] {
			env.sigSrc = h.NewSrc("signal")
			sig, p := h.Pushed[int](env.sigSrc, h.Unsafe)
			env.signal = p
			return ro.TakeUntil[int](sig)(o)
		}, fire: func(env *c14env) { env.signal.Next(0) }},
		{name: "Unsubscribe", wrap: func(o ro.Observable[int], n int, env *c14env) ro.Observable[int] { return o },
			fire: func(env *c14env) {
				if s, ok := env.returned(); ok {
					s.Unsubscribe()
				}
			}},
	}
}

type c14Op struct {
	name     string
	chain    func(src ro.Observable[int]) ro.Observable[int]
	blocking bool
	// passes says how many source values are needed for n values to come out (nil: n)
	needs func(n int) int
}

func c14Ops() []c14Op {
	var ops []c14Op
	for _, r := range cat.AllRows() {
		r := r
		if r.IntChain == nil || r.Has(cat.NoSubscribe) || r.Has(cat.Aggregate) || strings.Contains(r.Name, "[spare cap]") {
			continue // ([spare cap] rows: the same operators with another argument slice, C12's business)
		}
		switch r.Family {
		case "Filter", "Skip", "SkipWhile", "SkipLast", "Distinct", "IgnoreElements", "Take", "TakeWhile", "Head", "First", "ElementAt", "ElementAtOrDefault", "Find", "MapErr", "FlatMap", "MergeMap", "Clamp", "StartWith", "Contains":
			// these change how many values pass: keep the pass-everything configurations only
			if r.Name != "Filter(odd)" && r.Name != "Skip(0)" && r.Name != "StartWith()" && r.Name != "MapErr(fail=-1)" && r.Name != "MapErrWithContext" {
				continue
			}
		}
		op := c14Op{name: r.Name, blocking: r.Has(cat.Blocking), chain: func(src ro.Observable[int]) ro.Observable[int] { return r.IntChain(cat.NewEnv())(src) }}
		ops = append(ops, op)
	}
	// multi-source operators that wait inside Subscribe, and hand-off operators
	extra := []c14Op{
		{name: "Concat(src,Just(9))", blocking: true, chain: func(s ro.Observable[int]) ro.Observable[int] { return ro.Concat(s, ro.Just(9)) }},
		{name: "ConcatWith(Just(9))", blocking: true, chain: func(s ro.Observable[int]) ro.Observable[int] { return ro.ConcatWith(ro.Just(9))(s) }},
		{name: "Concat(Empty,src)", blocking: true, chain: func(s ro.Observable[int]) ro.Observable[int] { return ro.Concat(ro.Empty[int](), s) }},
		{name: "FlatMap(->src)", blocking: true, chain: func(s ro.Observable[int]) ro.Observable[int] {
			return ro.FlatMap(func(int) ro.Observable[int] { return s })(ro.Just(0))
		}},
		{name: "MergeMap(->src)", chain: func(s ro.Observable[int]) ro.Observable[int] {
			return ro.MergeMap(func(int) ro.Observable[int] { return s })(ro.Just(0))
		}},
		// higher-order operators over a HOT outer source whose inner observables emit one value while they
		// are being subscribed and then stay open: the downstream can end inside the inner Subscribe call
		{name: "ConcatAll(src->open inner)", chain: func(s ro.Observable[int]) ro.Observable[int] {
			return ro.ConcatAll[int]()(ro.Map(openInner)(s))
		}},
		{name: "FlatMap(src->open inner)", chain: func(s ro.Observable[int]) ro.Observable[int] { return ro.FlatMap(openInner)(s) }},
		{name: "MergeMap(src->open inner)", chain: func(s ro.Observable[int]) ro.Observable[int] { return ro.MergeMap(openInner)(s) }},
		{name: "MergeAll(src->open inner)", chain: func(s ro.Observable[int]) ro.Observable[int] {
			return ro.MergeAll[int]()(ro.Map(openInner)(s))
		}},
		// a sibling source that completes, on its own goroutine, as soon as it has been subscribed: the
		// operator is then still busy subscribing the never-ending source
		{name: "Merge(completing sibling,src)", chain: func(s ro.Observable[int]) ro.Observable[int] { return ro.Merge(completingSibling(), s) }},
		{name: "MergeMap(->completing sibling,src)", chain: func(s ro.Observable[int]) ro.Observable[int] {
			sib := completingSibling()
			return ro.MergeMap(func(i int) ro.Observable[int] {
				if i == 0 {
					return sib
				}
				return s
			})(ro.Just(0, 1))
		}},
		{name: "CombineLatest2(completing sibling,src)|Map", chain: func(s ro.Observable[int]) ro.Observable[int] {
			return ro.Map(func(t tup2T) int { return t.B })(ro.CombineLatest2(completingSibling(), s))
		}},
		{name: "Merge(src,Never)", chain: func(s ro.Observable[int]) ro.Observable[int] {
			return ro.Merge(s, ro.Map(func(struct{}) int { return 0 })(ro.Never()))
		}},
		{name: "CombineLatest2(src,Just)|Map", chain: func(s ro.Observable[int]) ro.Observable[int] {
			return ro.Map(func(t tup2T) int { return t.A })(ro.CombineLatest2(s, ro.Just(5)))
		}},
		{name: "Zip2(src,Range)|Map", chain: func(s ro.Observable[int]) ro.Observable[int] {
			return ro.Map(func(t tup2T64) int { return t.A })(ro.Zip2(s, ro.Range(0, 100)))
		}},
		{name: "Race(src,Never)", chain: func(s ro.Observable[int]) ro.Observable[int] {
			return ro.Race(s, ro.Map(func(struct{}) int { return 0 })(ro.Never()))
		}},
		{name: "SubscribeOn(2)", blocking: true, chain: func(s ro.Observable[int]) ro.Observable[int] { return ro.SubscribeOn[int](2)(s) }},
		{name: "ObserveOn(2)", chain: func(s ro.Observable[int]) ro.Observable[int] { return ro.ObserveOn[int](2)(s) }},
		{name: "Share", chain: func(s ro.Observable[int]) ro.Observable[int] { return ro.Share[int]()(s) }},
		{name: "ShareReplay(1)", chain: func(s ro.Observable[int]) ro.Observable[int] {
			return ro.ShareReplayWithConfig[int](1, ro.ShareReplayConfig{ResetOnRefCountZero: true})(s)
		}},
		{name: "GroupBy|MergeAll", chain: func(s ro.Observable[int]) ro.Observable[int] {
			return ro.MergeAll[int]()(ro.GroupBy(func(v int) int { return v % 2 })(s))
		}},
		{name: "WindowWhen(Never)|MergeAll", chain: func(s ro.Observable[int]) ro.Observable[int] {
			return ro.MergeAll[int]()(ro.WindowWhen[int](ro.Never())(s))
		}},
		{name: "BufferWithCount(1)|Flatten", chain: func(s ro.Observable[int]) ro.Observable[int] {
			return ro.Flatten[int]()(ro.BufferWithCount[int](1)(s))
		}},
		{name: "ThrowOnContextCancel", chain: func(s ro.Observable[int]) ro.Observable[int] { return ro.ThrowOnContextCancel[int]()(s) }},
		{name: "Delay(0)", chain: func(s ro.Observable[int]) ro.Observable[int] { return ro.Delay[int](0)(s) }},
		{name: "Timeout(1h)", chain: func(s ro.Observable[int]) ro.Observable[int] { return ro.Timeout[int](3600 * 1000 * u)(s) }},
	}
	return append(ops, extra...)
}

// c14Inners: the inner sources created during the current execution (one execution at a time per worker).
var c14Inners []*h.Src

//go:norace
func c14AddInner(sc *h.Src) { c14Inners = append(c14Inners, sc) }

//go:norace
func c14ResetInners() { c14Inners = nil }

//go:norace
func c14InnersLive() (live int, desc string) {
	var d []string
	for _, sc := range c14Inners {
		n, t, l, _ := sc.Get()
		live += l
		d = append(d, fmt.Sprintf("%s: subscribed %d, released %d", sc.Name, n, t))
	}
	return live, strings.Join(d, "; ")
}

// openInner is an inner observable that emits v synchronously while it is being subscribed and then stays
// open for ever (what a BehaviorSubject or a replaying source does).
func openInner(v int) ro.Observable[int] {
	sc := h.NewSrc(fmt.Sprint("inner", v))
	c14AddInner(sc)
	return h.Script[int](sc, h.Unsafe, []h.Ev{h.Nx(v)})
}

// completingSibling is a hot source with a producer goroutine that emits 0 and completes right after the
// source has been subscribed.
func completingSibling() ro.Observable[int] {
	src := h.NewSrc("sibling")
	o, p := h.Pushed[int](src, h.Unsafe)
	vrt.GoNamed("sibling", func() {
		vrt.Point(vrt.OpUser, 0, func() bool { n, _, _, _ := src.Get(); return n > 0 })
		p.Next(0)
		p.Complete()
	})
	return o
}

func c14Case(op c14Op, tm terminator, n int) fw.Case { return c14CaseRacing(op, tm, n, false) }

// c14CaseRacing: with race set, a second producer goroutine pushes n values while Subscribe is still
// setting the pipeline up, so that the downstream can terminate on the producer's goroutine before the
// teardowns have been registered; the quiescent part of the scenario and the oracle are the same.
func c14CaseRacing(op c14Op, tm terminator, n int, race bool) fw.Case {
	nm := fmt.Sprintf("%s@%d", tm.name, n)
	bound := c14Bound
	if race {
		nm = "producer-racing-subscribe/" + nm
		bound = 2 // both tiers: at 3 one operator alone (a single shard) outlasts the whole budget
	}
	return fw.Case{Name: nm, Bound: bound, Opts: vrt.Options{Horizon: 40000, MaxTime: int64(5 * u)}, Make: func() fw.Instance {
		rec := h.NewRec("out")
		src := h.NewSrc("src")
		env := &c14env{}
		var lenBefore, lenAfter int
		var liveAtQuiescence, tearsAtQ, subsAtQ, innerLiveAtQ int
		var innerDesc string
		var returnedAtQ, terminatedAtQ bool
		fired := false
		body := func() {
			c14ResetInners()
			o, push := h.Pushed[int](src, h.Unsafe)
			pipeline := tm.wrap(op.chain(o), n, env)
			if race {
				vrt.GoNamed("racer", func() {
					for i := 1; i <= n; i++ {
						push.Next(100 + 2*i - 1)
					}
				})
			}
			vrt.GoNamed("subscribe", func() {
				s := pipeline.Subscribe(h.Observer[int](rec))
				env.setSub(s)
			})
			vrt.Settle()
			for i := 1; i <= n; i++ {
				push.Next(2*i - 1)
				vrt.Settle()
				vrt.HSleep(int64(u)) // lets zero-delay timers of time-driven operators fire
				vrt.Settle()
			}
			if tm.fire != nil {
				if _, ok := env.returned(); ok || tm.name != "Unsubscribe" {
					tm.fire(env)
					fired = true
				}
				vrt.Settle()
			} else {
				fired = true
			}
			vrt.HSleep(int64(u))
			vrt.Settle()
			subsAtQ, tearsAtQ, liveAtQuiescence, _ = src.Get()
			innerLiveAtQ, innerDesc = c14InnersLive()
			_, returnedAtQ = env.returned()
			lenBefore = rec.Len()
			terminatedAtQ = hasTerminal(rec.Events()) || tm.name == "Unsubscribe"
			push.Next(99)
			vrt.Settle()
			lenAfter = rec.Len()
		}
		return fw.Instance{Body: body, Outcome: rec.Trace, Check: func(r *vrt.Result) []fw.Violation {
			var out []fw.Violation
			sig := "cancel/" + op.name
			where := fmt.Sprintf("never-ending source -> %s -> %s (n=%d)", op.name, tm.name, n)
			if !fired {
				// external Unsubscribe needs the Subscription, which a Subscribe call that never returns does not give
				if tm.name != "Unsubscribe" {
					cls := "blocked"
					if r.HorizonHit {
						cls = "non-termination"
					}
					out = append(out, fw.V(sig+"/push-never-returns/"+cls, fmt.Sprintf("%s: the producer's Next call did not return (%s) (trace [%s])", where, blockedSummary(r), rec.Trace())))
					return out
				}
				out = append(out, fw.V(sig+"/subscribe-never-returns/no-handle", where+": Subscribe is still running inside the pipeline, so the caller has no Subscription to cancel"))
				return out
			}
			if !terminatedAtQ {
				return nil // the terminator did not fire (the operator holds values back): nothing to check
			}
			if liveAtQuiescence != 0 || tearsAtQ != subsAtQ {
				out = append(out, fw.V(sig+"/source-not-released/"+tmClass(tm), fmt.Sprintf("%s: downstream ended (trace [%s]) but the source is still subscribed (subscribed %d, torn down %d) without having been asked to emit again", where, rec.Trace(), subsAtQ, tearsAtQ)))
			}
			if innerLiveAtQ != 0 {
				out = append(out, fw.V(sig+"/inner-source-not-released/"+tmClass(tm), fmt.Sprintf("%s: downstream ended (trace [%s]) but %d inner source(s) are still subscribed (%s)", where, rec.Trace(), innerLiveAtQ, innerDesc)))
			}
			if !returnedAtQ {
				out = append(out, fw.V(sig+"/subscribe-still-running/"+tmClass(tm), fmt.Sprintf("%s: downstream ended (trace [%s]) but the Subscribe call has not returned", where, rec.Trace())))
			}
			if lenAfter != lenBefore {
				out = append(out, fw.V(sig+"/delivery-after-end/"+tmClass(tm), fmt.Sprintf("%s: a value pushed after the end was delivered: [%s]", where, rec.Trace())))
			}
			for _, b := range r.Blocked {
				if b.Name == "racer" {
					// the second producer of the harness: its Next call never returned
					out = append(out, fw.V(sig+"/push-never-returns/blocked", fmt.Sprintf("%s: the producer's Next call did not return (%s) (trace [%s])", where, blockedSummary(r), rec.Trace())))
					continue
				}
				if b.Name != "subscribe" && b.Name != "main" {
					out = append(out, fw.V(sig+"/goroutine-left/"+b.Name, fmt.Sprintf("%s: library goroutine %s is still blocked (%s) after the end", where, b.Name, b.Op)))
					break
				}
			}
			if r.Crash != nil {
				out = append(out, fw.V(sig+"/goroutine-top-panic/"+r.Crash.Name, where+": "+r.Crash.Value))
			}
			return out
		}}
	}}
}

func tmClass(tm terminator) string {
	switch tm.name {
	case "Unsubscribe":
		return "unsubscribe"
	case "MapErr(fails at n)":
		return "error"
	}
	return "early-complete"
}

// context cancellation on the context-aware sources and operators
func c14CtxCase(name string, mk func(src ro.Observable[int]) ro.Observable[int], needsPush bool) fw.Case {
	return c14CtxCaseOpt(name, mk, needsPush, false)
}

// c14CtxCaseOpt with teardowns=true is C03's reading of the same scenario: a teardown added to the returned
// subscription must have run exactly once after the cancellation ended the stream.
func c14CtxCaseOpt(name string, mk func(src ro.Observable[int]) ro.Observable[int], needsPush bool, teardowns bool) fw.Case {
	return fw.Case{Name: "cancel-context", Opts: vrt.Options{Horizon: 40000, MaxTime: int64(20 * u)}, Make: func() fw.Instance {
		rec := h.NewRec("out")
		src := h.NewSrc("src")
		env := &c14env{}
		var live int
		var ret bool
		added := &tdCount{}
		didAdd := false
		body := func() {
			o, push := h.Pushed[int](src, h.Unsafe)
			ctx, cancel := context.WithCancel(context.Background())
			pipeline := mk(o)
			vrt.GoNamed("subscribe", func() {
				s := pipeline.SubscribeWithContext(ctx, h.Observer[int](rec))
				env.setSub(s)
			})
			vrt.Settle()
			if s, ok := env.returned(); ok && teardowns && s != nil {
				s.Add(func() { added.Inc() })
				didAdd = true
			}
			if needsPush {
				push.Next(1)
				vrt.Settle()
			}
			cancel()
			vrt.Settle()
			if needsPush {
				push.Next(2) // a context-checking operator notices the cancellation at the next notification at the latest
				vrt.Settle()
			}
			vrt.HSleep(int64(10 * u))
			vrt.Settle()
			_, _, live, _ = src.Get()
			_, ret = env.returned()
		}
		return fw.Instance{Body: body, Outcome: rec.Trace, Check: func(r *vrt.Result) []fw.Violation {
			var out []fw.Violation
			sig := "cancel-context/" + name
			if !hasTerminal(rec.Events()) {
				out = append(out, fw.V(sig+"/no-terminal-after-cancel/silent", fmt.Sprintf("%s: the subscription context was cancelled; the observer has [%s] and no terminal notification", name, rec.Trace())))
			}
			if live != 0 {
				out = append(out, fw.V(sig+"/source-not-released/context", fmt.Sprintf("%s: after cancellation the source is still subscribed", name)))
			}
			if !ret {
				out = append(out, fw.V(sig+"/subscribe-still-running/context", fmt.Sprintf("%s: after cancellation the Subscribe call has not returned", name)))
			}
			if n := added.Get(); teardowns && didAdd && hasTerminal(rec.Events()) && n != 1 {
				out = append(out, fw.V(fmt.Sprintf("%s/added-teardown-runs/%d-times", sig, n), fmt.Sprintf("%s: the stream ended by cancellation; a teardown added to the subscription before ran %d times", name, n)))
			}
			for _, b := range r.Blocked {
				if b.Name != "subscribe" && b.Name != "main" {
					out = append(out, fw.V(sig+"/goroutine-left/"+b.Name, fmt.Sprintf("%s: library goroutine %s still blocked (%s)", name, b.Name, b.Op)))
					break
				}
			}
			return out
		}}
	}}
}


type tdCount struct{ n int }

//go:norace
func (c *tdCount) Inc() { c.n++ }

//go:norace
func (c *tdCount) Get() int { return c.n }

type c14CtxOp struct {
	name string
	mk   func(src ro.Observable[int]) ro.Observable[int]
	push bool
}

func c14CtxOps() []c14CtxOp {
	return []c14CtxOp{
			{"Interval", func(ro.Observable[int]) ro.Observable[int] {
				return ro.Map(func(v int64) int { return int(v) })(ro.Interval(100 * u))
			}, false},
			{"IntervalWithInitial", func(ro.Observable[int]) ro.Observable[int] {
				return ro.Map(func(v int64) int { return int(v) })(ro.IntervalWithInitial(50*u, 100*u))
			}, false},
			{"Timer", func(ro.Observable[int]) ro.Observable[int] {
				return ro.Map(func(v timeDur) int { return 0 })(ro.Timer(100 * u))
			}, false},
			{"Never", func(ro.Observable[int]) ro.Observable[int] {
				return ro.Map(func(struct{}) int { return 0 })(ro.Never())
			}, false},
			{"RangeWithInterval", func(ro.Observable[int]) ro.Observable[int] {
				return ro.Map(func(v int64) int { return int(v) })(ro.RangeWithInterval(0, 5, 100*u))
			}, false},
			{"ThrowOnContextCancel(src)", func(s ro.Observable[int]) ro.Observable[int] { return ro.ThrowOnContextCancel[int]()(s) }, true},
			{"RetryWithConfig(delay)(Throw)", func(ro.Observable[int]) ro.Observable[int] {
				return ro.RetryWithConfig[int](ro.RetryConfig{MaxRetries: 5, Delay: 100 * u})(ro.Throw[int](h.ErrSrc))
			}, false},
		}
}

var c14Bound = 1

func init() {
	Registry["C14"] = func(tier string) []fw.Scenario {
		cuts := []int{1, 2}
		c14Bound = 1
		if tier == "thorough" {
			cuts = []int{1, 2, 3}
			c14Bound = 2
		}
		var scns []fw.Scenario
		ops := c14Ops()
		for _, op := range ops {
			op := op
			scns = append(scns, fw.Scenario{ID: "C14/" + op.name, Group: op.name, Run: func(c *fw.Ctx) {
				for _, tm := range terminators() {
					for _, n := range cuts {
						c.Explore(c14Case(op, tm, n))
					}
					c.Explore(c14CaseRacing(op, tm, 1, true))
				}
			}})
		}
		// chains of two operators from the waits-inside-Subscribe class
		var blocking []c14Op
		for _, op := range ops {
			if op.blocking {
				blocking = append(blocking, op)
			}
		}
		for _, a := range blocking {
			for _, b := range blocking {
				a, b := a, b
				pair := c14Op{name: a.name + " | " + b.name, blocking: true, chain: func(s ro.Observable[int]) ro.Observable[int] { return b.chain(a.chain(s)) }}
				scns = append(scns, fw.Scenario{ID: "C14/" + pair.name, Group: "pairs", Run: func(c *fw.Ctx) {
					for _, tm := range terminators()[:2] {
						c.Explore(c14Case(pair, tm, 1))
					}
				}})
			}
		}
		ctxOps := c14CtxOps()
		scns = append(scns, c14Multi(tier)...)
		for _, co := range ctxOps {
			co := co
			scns = append(scns, fw.Scenario{ID: "C14/ctx/" + co.name, Group: "context", Run: func(c *fw.Ctx) {
				c.Explore(c14CtxCase(co.name, co.mk, co.push))
			}})
		}
		return scns
	}
}
