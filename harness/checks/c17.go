package checks

import (
	"fmt"
	"strings"

	"github.com/samber/ro"
	"verif.local/harness/fw"
	"verif.local/harness/h"
	"verif.local/vrt"
)

// C17 - bridges to slices, maps and channels are exact and close exactly once.

func materialized(w []h.Ev) []ro.Notification[int] {
	var out []ro.Notification[int]
	for _, e := range w {
		switch e.K {
		case h.N:
			out = append(out, ro.NewNotificationNext(e.V.(int)))
		case h.E:
			return append(out, ro.NewNotificationError[int](e.Err))
		case h.C:
			return append(out, ro.NewNotificationComplete[int]())
		}
	}
	return out
}

func notifString(ns []ro.Notification[int]) string {
	var s []string
	for _, n := range ns {
		s = append(s, n.String())
	}
	return strings.Join(s, " ")
}

type chanReads struct {
	items  []ro.Notification[int]
	closed bool
	ch     <-chan ro.Notification[int]
	nchan  int
}

//go:norace
func (c *chanReads) add(n ro.Notification[int]) { c.items = append(c.items, n) }

//go:norace
func (c *chanReads) setClosed() { c.closed = true }

//go:norace
func (c *chanReads) setChan(ch <-chan ro.Notification[int]) { c.ch = ch; c.nchan++ }

//go:norace
func (c *chanReads) get() (<-chan ro.Notification[int], int) { return c.ch, len(c.items) }

// c17ToChannel: consumer reads `reads` items (-1: until closed); unsubAfter >= 0: Unsubscribe once the
// consumer has read that many items (from the consumer thread).
func c17ToChannel(size int, word []h.Ev, pushed bool, reads int, unsubAfter int, bound int) fw.Case {
	nm := fmt.Sprintf("cap%d/[%s]/pushed=%v/reads=%d/unsub@%d", size, h.Word(word), pushed, reads, unsubAfter)
	return fw.Case{Name: nm, Bound: bound, Opts: vrt.Options{Horizon: 60000, MaxTime: int64(20 * u)}, Make: func() fw.Instance {
		rec := h.NewRec("out")
		cr := &chanReads{}
		var sub0 ro.Subscription
		unsubDone := false
		body := func() {
			src := h.NewSrc("src")
			var obs ro.Observable[int]
			var push *h.Push[int]
			if pushed {
				obs, push = h.Pushed[int](src, h.Unsafe)
			} else {
				obs = h.Script[int](src, h.Unsafe, word)
			}
			rec.Hook = func(r *h.Rec, idx int, e h.Ev) {
				if e.K == h.N {
					cr.setChan(e.V.(<-chan ro.Notification[int]))
				}
			}
			sub0 = ro.ToChannel[int](size)(obs).Subscribe(h.Observer[<-chan ro.Notification[int]](rec))
			if pushed {
				vrt.GoNamed("producer", func() {
					// a hot source: start emitting once the bridge has subscribed to it
					vrt.Point(vrt.OpUser, 0, func() bool { n, _, _, _ := src.Get(); return n > 0 })
					play(push, word)
				})
			}
			vrt.GoNamed("consumer", func() {
				ch, _ := cr.get()
				if ch == nil {
					return
				}
				for i := 0; reads < 0 || i < reads; i++ {
					if unsubAfter >= 0 && i == unsubAfter && !unsubDone {
						unsubDone = true
						sub0.Unsubscribe()
					}
					n, ok := vrt.Recv2(ch)
					if !ok {
						cr.setClosed()
						return
					}
					cr.add(n)
				}
			})
		}
		return fw.Instance{Body: body, Outcome: func() string { return rec.Trace() + " | " + notifString(cr.items) + fmt.Sprint(" closed=", cr.closed) },
			Nontrivial: func(r *vrt.Result) bool { return len(cr.items) > 0 }, Check: func(r *vrt.Result) []fw.Violation {
				var out []fw.Violation
				sig := fmt.Sprintf("bridge/ToChannel(%d)", size)
				add := func(clause, cls, detail string) { out = append(out, fw.V(sig+"/"+clause+"/"+cls, nm+": "+detail)) }
				if r.Crash != nil {
					add("goroutine-top-panic", r.Crash.Name, r.Crash.Value)
				}
				if r.DoubleClose > 0 {
					add("channel-closed-twice", "close", fmt.Sprintf("close was executed on an already closed channel %d time(s)", r.DoubleClose))
				}
				nch := 0
				for _, e := range rec.Events() {
					if e.K == h.N {
						nch++
					}
				}
				if nch != 1 {
					cls := "none"
					if nch > 1 {
						cls = "several"
					}
					add("exactly-one-channel", cls, fmt.Sprintf("the observer received %d channels (trace [%s])", nch, rec.Trace()))
					return out
				}
				want := materialized(word)
				got := cr.items
				if len(got) > len(want) || notifString(got) != notifString(want[:len(got)]) {
					add("channel-content", "not-a-prefix", fmt.Sprintf("read [%s] from the channel, the materialised sequence is [%s]", notifString(got), notifString(want)))
				}
				terminated := len(word) > 0 && word[len(word)-1].K != h.N
				consumerBlocked := false
				for _, b := range r.Blocked {
					if b.Name == "consumer" {
						consumerBlocked = true
					}
				}
				if reads < 0 && unsubAfter < 0 && terminated {
					if consumerBlocked {
						add("channel-not-closed", "after-terminal", fmt.Sprintf("the stream terminated but the channel was never closed (read [%s])", notifString(got)))
					} else if len(got) != len(want) {
						add("channel-content", "values-lost", fmt.Sprintf("consumer read until close: [%s], materialised sequence [%s]", notifString(got), notifString(want)))
					}
				}
				if reads < 0 && unsubAfter >= 0 && unsubDone && consumerBlocked {
					add("channel-not-closed", "after-unsubscribe", "Unsubscribe returned but the channel was never closed")
				}
				return out
			}}
	}}
}

// c17FromChannel: producer sends the values then closes (or abandons); unsubscribe after k deliveries.
func c17FromChannel(capacity int, vals []int, closeIt bool, unsubAfter int, bound int) fw.Case {
	nm := fmt.Sprintf("cap%d/%v/close=%v/unsub@%d", capacity, vals, closeIt, unsubAfter)
	return fw.Case{Name: nm, Bound: bound, Opts: vrt.Options{Horizon: 60000}, Make: func() fw.Instance {
		rec := h.NewRec("out")
		var sub0 ro.Subscription
		unsubRet := uint64(0)
		sent := 0
		body := func() {
			in := make(chan int, capacity)
			if unsubAfter >= 0 {
				rec.Hook = func(r *h.Rec, idx int, e h.Ev) {
					if idx == unsubAfter && sub0 != nil {
						sub0.Unsubscribe()
						unsubRet = vrt.Tick()
					}
				}
			}
			sub0 = ro.FromChannel[int](in).Subscribe(h.Observer[int](rec))
			if unsubAfter == 0 && len(vals) == 0 {
				sub0.Unsubscribe()
				unsubRet = vrt.Tick()
			}
			vrt.GoNamed("producer", func() {
				for _, v := range vals {
					vrt.Send(in, v)
					sent++
				}
				if closeIt {
					vrt.Close(in)
				}
			})
		}
		return fw.Instance{Body: body, Outcome: rec.Trace, Nontrivial: func(r *vrt.Result) bool { return rec.Len() > 0 }, Check: func(r *vrt.Result) []fw.Violation {
			var out []fw.Violation
			sig := "bridge/FromChannel"
			add := func(clause, cls, detail string) { out = append(out, fw.V(sig+"/"+clause+"/"+cls, nm+": "+detail)) }
			if r.Crash != nil {
				add("goroutine-top-panic", r.Crash.Name, r.Crash.Value)
			}
			evs := rec.Events()
			if g := h.GrammarError(evs); g != "" {
				add("grammar", grammarClass(evs), g)
			}
			var got []int
			completed := false
			for _, e := range evs {
				switch e.K {
				case h.N:
					got = append(got, e.V.(int))
				case h.C:
					completed = true
				case h.E:
					add("unexpected-error", "error", e.Err.Error())
				}
			}
			if len(got) > len(vals) || fmt.Sprint(got) != fmt.Sprint(vals[:len(got)]) {
				add("values", "not-a-prefix", fmt.Sprintf("emitted %v, the channel carried %v", got, vals))
			}
			if unsubAfter < 0 {
				if closeIt && (!completed || len(got) != len(vals)) {
					add("complete-iff-closed", "missing", fmt.Sprintf("the channel was closed after %v; trace [%s]", vals, rec.Trace()))
				}
				if !closeIt && completed {
					add("complete-iff-closed", "spurious", fmt.Sprintf("the channel was never closed; trace [%s]", rec.Trace()))
				}
			} else if unsubRet > 0 {
				for _, en := range rec.Log {
					if en.In > unsubRet {
						add("delivery-after-unsubscribe", "value", fmt.Sprintf("trace [%s]", rec.Trace()))
						break
					}
				}
				for _, b := range r.Blocked {
					if strings.HasPrefix(b.Name, "go@") {
						add("reader-goroutine-left", b.Name, fmt.Sprintf("after Unsubscribe the reader goroutine is still blocked (%s)", b.Op))
					}
				}
			}
			return out
		}}
	}}
}

func c17Seq() []fw.Scenario {
	var scns []fw.Scenario
	scns = append(scns, fw.Scenario{ID: "C17/Collect", Group: "Collect", Run: func(c *fw.Ctx) {
		for _, w := range h.Words([]h.Ev{h.Nx(1), h.Nx(2), h.Er(h.ErrSrc), h.Co()}, 4) {
			if isOpen(w) {
				continue // Collect waits for the end of the stream
			}
			w := w
			c.Explore(fw.Case{Name: "collect:" + h.Word(w), Make: func() fw.Instance {
				var got []int
				var err error
				body := func() { got, err = ro.Collect(h.Script[int](h.NewSrc("s"), h.Unsafe, w)) }
				return fw.Instance{Body: body, Outcome: func() string { return fmt.Sprint(got, err) }, Check: func(r *vrt.Result) []fw.Violation {
					legal := h.LegalPrefix(w)
					var want []int
					var wantErr error
					for _, e := range legal {
						if e.K == h.N {
							want = append(want, e.V.(int))
						}
						if e.K == h.E {
							wantErr = e.Err
						}
					}
					if fmt.Sprint(got) != fmt.Sprint(want) && (len(got) != 0 || len(want) != 0) || (err == nil) != (wantErr == nil) {
						return []fw.Violation{fw.V("bridge/Collect/values/mismatch", fmt.Sprintf("source [%s]: Collect returned %v, %v; delivered values %v, error %v", h.Word(w), got, err, want, wantErr))}
					}
					if len(r.Blocked) > 0 {
						return []fw.Violation{fw.V("bridge/Collect/never-returns/blocked", "source ["+h.Word(w)+"]")}
					}
					return nil
				}}
			}})
		}
	}})
	scns = append(scns, fw.Scenario{ID: "C17/Dematerialize|Materialize", Group: "Materialize", Run: func(c *fw.Ctx) {
		words := h.Legal([]interface{}{1, 2}, 4, []h.Kind{h.C, h.E}, true)
		// an Error notification whose error value is nil is still an Error
		words = append(words, []h.Ev{h.Er(nil)}, []h.Ev{h.Nx(1), h.Er(nil)}, []h.Ev{h.Nx(1), h.Nx(2), h.Er(nil)})
		for _, w := range words {
			w := w
			c.Explore(fw.Case{Name: "notifications:" + h.Word(w), Make: func() fw.Instance {
				rec := h.NewRec("out")
				mat := materialized(w)
				body := func() {
					var word []h.Ev
					for _, n := range mat {
						word = append(word, h.Nx(n))
					}
					word = append(word, h.Co())
					src := h.Script[ro.Notification[int]](h.NewSrc("s"), h.Unsafe, word)
					ro.Materialize[int]()(ro.Dematerialize[int]()(src)).Subscribe(h.Observer[ro.Notification[int]](rec))
				}
				return fw.Instance{Body: body, Outcome: rec.Trace, Check: func(r *vrt.Result) []fw.Violation {
					var got []ro.Notification[int]
					for _, e := range rec.Events() {
						if e.K == h.N {
							got = append(got, e.V.(ro.Notification[int]))
						}
					}
					want := mat
					if isOpen(w) {
						want = append(append([]ro.Notification[int]{}, mat...), ro.NewNotificationComplete[int]())
					}
					if notifString(got) != notifString(want) {
						return []fw.Violation{fw.V("bridge/Dematerialize|Materialize/identity/mismatch", fmt.Sprintf("notification stream [%s] came back as [%s]", notifString(want), notifString(got)))}
					}
					return nil
				}}
			}})
		}
	}})
	scns = append(scns, fw.Scenario{ID: "C17/Materialize|Dematerialize", Group: "Materialize", Run: func(c *fw.Ctx) {
		words := h.Legal([]interface{}{1, 2}, 3, []h.Kind{h.C, h.E}, true)
		words = append(words, []h.Ev{h.Er(nil)}, []h.Ev{h.Nx(1), h.Er(nil)})
		for _, w := range words {
			w := w
			c.Explore(fw.Case{Name: "stream:" + h.Word(w), Make: func() fw.Instance {
				rec, direct := h.NewRec("round-trip"), h.NewRec("direct")
				body := func() {
					ro.Dematerialize[int]()(ro.Materialize[int]()(h.Script[int](h.NewSrc("s"), h.Unsafe, w))).Subscribe(h.Observer[int](rec))
					h.Script[int](h.NewSrc("d"), h.Unsafe, w).Subscribe(h.Observer[int](direct))
				}
				return fw.Instance{Body: body, Outcome: rec.Trace, Check: func(r *vrt.Result) []fw.Violation {
					if rec.Trace() != direct.Trace() {
						return []fw.Violation{fw.V("bridge/Materialize|Dematerialize/identity/mismatch", fmt.Sprintf("stream [%s] came back as [%s] (direct subscription: [%s])", h.Word(w), rec.Trace(), direct.Trace()))}
					}
					return nil
				}}
			}})
		}
	}})
	return scns
}

func init() {
	Registry["C17"] = func(tier string) []fw.Scenario {
		bound, maxVals := 2, 2
		if tier == "thorough" {
			bound, maxVals = 3, 3
		}
		scns := c17Seq()
		words := h.Legal([]interface{}{1, 2}, maxVals, []h.Kind{h.C, h.E}, true)
		for _, size := range []int{0, 1, 2} {
			size := size
			for _, pushed := range []bool{false, true} {
				pushed := pushed
				scns = append(scns, fw.Scenario{ID: fmt.Sprintf("C17/ToChannel(%d)/pushed=%v", size, pushed), Group: "ToChannel", Run: func(c *fw.Ctx) {
					for _, w := range words {
						if len(w) > 3 {
							continue
						}
						b := bound
						if pushed {
							b = bound - 1
						}
						c.Explore(c17ToChannel(size, w, pushed, -1, -1, b))
						c.Explore(c17ToChannel(size, w, pushed, 0, -1, b-1))
						c.Explore(c17ToChannel(size, w, pushed, 1, -1, b-1))
						for k := 0; k <= len(w); k++ {
							c.Explore(c17ToChannel(size, w, pushed, -1, k, b-1))
						}
					}
				}})
			}
		}
		for _, capacity := range []int{0, 2} {
			capacity := capacity
			scns = append(scns, fw.Scenario{ID: fmt.Sprintf("C17/FromChannel(cap=%d)", capacity), Group: "FromChannel", Run: func(c *fw.Ctx) {
				for _, vals := range [][]int{{}, {1}, {1, 2}, {1, 2, 3}} {
					for _, cl := range []bool{true, false} {
						c.Explore(c17FromChannel(capacity, vals, cl, -1, bound))
						for k := 0; k <= len(vals); k++ {
							c.Explore(c17FromChannel(capacity, vals, cl, k, bound-1))
						}
					}
				}
			}})
		}
		return scns
	}
}
