package checks

import (
	"context"
	"errors"
	"fmt"
	"strings"

	"github.com/samber/ro"
	"verif.local/harness/cat"
	"verif.local/harness/fw"
	"verif.local/harness/h"
	"verif.local/vrt"
)

// C07 - fault enumeration. For every operator row and input script: a clean run discovers the
// user-callback slots and how often each is invoked; then every (slot, invocation index, fault kind) is
// injected, one per execution. The final observer's three callbacks and the source's subscribe function
// are fault positions too.

var faultKinds = []string{"panic-error", "panic-string", "error-return"}

func matchesCause(err error, kind int) bool {
	if err == nil {
		return false
	}
	if kind == 1 {
		return strings.Contains(err.Error(), cat.PanicString)
	}
	return errors.Is(err, h.ErrCb) || strings.Contains(err.Error(), h.ErrCb.Error())
}

type c07run struct {
	rec        *h.Rec
	env        *cat.Env
	hooks      *h.Hooks
	escaped    string // panic that reached the harness's Subscribe/Next call
	termAtFire bool
	lenAtFire  int
	follow     string // problem during the follow-up subscription
	followRec  *h.Rec
}

func hasTerminal(evs []h.Ev) bool {
	for _, e := range evs {
		if e.K != h.N {
			return true
		}
	}
	return false
}

func guard(into *string, what string, f func()) {
	defer func() {
		if r := recover(); r != nil && *into == "" {
			*into = fmt.Sprintf("%s panicked: %v", what, r)
		}
	}()
	f()
}

func isPrefix(a, b []h.Ev) bool {
	if len(a) > len(b) {
		return false
	}
	return h.SameTrace(a, b[:len(a)])
}

// faultCheck is the oracle shared by all fault positions.
func faultCheck(sigBase, where string, kind int, run *c07run, clean []h.Ev, r *vrt.Result) []fw.Violation {
	var out []fw.Violation
	add := func(clause, cls, detail string) {
		out = append(out, fw.V(sigBase+clause+"/"+cls, where+": "+detail))
	}
	if run.escaped != "" {
		add("panic-escaped-to-caller", faultKinds[kind], run.escaped)
	}
	if r.Crash != nil {
		add("goroutine-top-panic", faultKinds[kind], "a panic reached the top of goroutine "+r.Crash.Name+" (the process would exit): "+r.Crash.Value)
	}
	if r.HorizonHit {
		add("non-termination", faultKinds[kind], "the run did not terminate (step horizon)")
	}
	evs := run.rec.Events()
	if g := h.GrammarError(evs); g != "" {
		add("grammar-after-fault", grammarClass(evs), g)
		return out
	}
	vals, end := splitEv(evs)
	cleanVals, _ := splitEv(clean)
	if !isPrefix(vals, cleanVals) {
		add("values-before-fault", "not-a-prefix", fmt.Sprintf("delivered values [%s] are not a prefix of the fault-free run's [%s]", h.Word(vals), h.Word(cleanVals)))
	}
	if run.termAtFire {
		// the stream had already ended when the callback failed: nobody can receive the failure
		if len(run.hooks.Unhandled) == 0 && len(run.hooks.Dropped) == 0 {
			add("failure-with-no-receiver-not-surfaced", faultKinds[kind], "the stream had already terminated; the failure reached neither the unhandled-error hook nor the dropped-notification hook")
		}
		return out
	}
	switch {
	case end == nil:
		cls := "swallowed"
		if len(run.hooks.Unhandled) > 0 {
			cls = "sent-to-unhandled-hook-only"
		}
		add("no-error-notification", cls, fmt.Sprintf("the subscriber was still open but received [%s] and no Error notification", run.rec.Trace()))
	case end.K != h.E:
		add("no-error-notification", "completed-instead", fmt.Sprintf("the subscriber received [%s]: a completion instead of the Error", run.rec.Trace()))
	case !matchesCause(end.Err, kind):
		add("error-does-not-match-cause", faultKinds[kind], fmt.Sprintf("the Error notification is %q, which does not match the injected cause", end.Err.Error()))
	}
	if run.follow != "" {
		add("unusable-after-fault", "follow-up", run.follow)
	}
	return out
}

func c07OperatorCase(row cat.Row, word []h.Ev, f cat.Fault, clean []h.Ev) fw.Case {
	nm := fmt.Sprintf("%s#%d/%s:%s", f.Slot, f.Index, faultKinds[f.Kind], h.Word(word))
	return fw.Case{Name: nm, Opts: seqOpts(row), Make: func() fw.Instance {
		run := &c07run{rec: h.NewRec("out"), env: cat.NewEnv(), followRec: h.NewRec("follow")}
		ff := f
		run.env.Fault = &ff
		run.env.OnFire = func() { run.termAtFire = hasTerminal(run.rec.Events()); run.lenAtFire = run.rec.Len() }
		body := func() {
			run.hooks = h.BeginHooks()
			var l *cat.Live
			guard(&run.escaped, "Subscribe", func() {
				l = row.Start(cat.Setup{Kind: cat.SrcScript, Word: word, Rec: run.rec, Env: run.env})
			})
			if l != nil && run.env.Fired {
				guard(&run.follow, "a fresh subscription after the fault", func() { l.Resub(run.followRec) })
			}
		}
		return fw.Instance{Body: body, Outcome: run.rec.Trace, Check: func(r *vrt.Result) []fw.Violation {
			if !run.env.Fired {
				return nil
			}
			if len(r.Blocked) > 0 && run.follow == "" && !isOpen(word) {
				run.follow = "blocked: " + blockedSummary(r)
			}
			return faultCheck("fault/"+row.Name+"/"+f.Slot+":", fmt.Sprintf("input [%s], %s in %s invocation #%d", h.Word(word), faultKinds[f.Kind], f.Slot, f.Index), f.Kind, run, clean, r)
		}}
	}}
}

// c07ObserverCase: the final observer's own callback fails at notification index idx.
func c07ObserverCase(row cat.Row, word []h.Ev, idx int, kind int, clean []h.Ev) fw.Case {
	nm := fmt.Sprintf("observer#%d/%s:%s", idx, faultKinds[kind], h.Word(word))
	return fw.Case{Name: nm, Opts: seqOpts(row), Make: func() fw.Instance {
		run := &c07run{rec: h.NewRec("out"), env: cat.NewEnv()}
		fired := false
		var which h.Kind
		run.rec.Hook = func(r *h.Rec, i int, e h.Ev) {
			if i == idx && !fired {
				fired = true
				which = e.K
				if kind == 0 {
					panic(h.ErrCb)
				}
				panic(cat.PanicString)
			}
		}
		body := func() {
			run.hooks = h.BeginHooks()
			guard(&run.escaped, "Subscribe", func() {
				row.Start(cat.Setup{Kind: cat.SrcScript, Word: word, Rec: run.rec, Env: run.env})
			})
		}
		return fw.Instance{Body: body, Outcome: run.rec.Trace, Check: func(r *vrt.Result) []fw.Violation {
			if !fired {
				return nil
			}
			sig := "fault/" + row.Name + "/observer." + [...]string{"next", "error", "complete"}[which] + ":"
			where := fmt.Sprintf("input [%s], %s in the observer's callback for notification #%d", h.Word(word), faultKinds[kind], idx)
			var out []fw.Violation
			if run.escaped != "" {
				out = append(out, fw.V(sig+"panic-escaped-to-caller/"+faultKinds[kind], where+": "+run.escaped))
			}
			if r.Crash != nil {
				out = append(out, fw.V(sig+"goroutine-top-panic/"+faultKinds[kind], where+": "+r.Crash.Value))
			}
			evs := run.rec.Events()
			// the failing callback's own entry is in the log; what follows must be exactly one Error
			// matching the cause (for a failing onNext), or nothing but the unhandled hook (terminal callbacks)
			rest := evs[idx+1:]
			if which == h.N {
				if len(rest) == 0 || rest[0].K != h.E || !matchesCause(rest[0].Err, kind) {
					out = append(out, fw.V(sig+"no-error-notification/observer", fmt.Sprintf("%s: after the failing callback the observer received [%s]", where, h.Word(rest))))
				} else if len(rest) > 1 {
					out = append(out, fw.V(sig+"notification-after-error/observer", fmt.Sprintf("%s: after the Error the observer still received [%s]", where, h.Word(rest[1:]))))
				}
			} else {
				if len(rest) > 0 {
					out = append(out, fw.V(sig+"notification-after-terminal/observer", fmt.Sprintf("%s: after the failing terminal callback the observer received [%s]", where, h.Word(rest))))
				}
				if len(run.hooks.Unhandled) == 0 {
					out = append(out, fw.V(sig+"failure-with-no-receiver-not-surfaced/observer", where+": the unhandled-error hook was not called"))
				}
			}
			return out
		}}
	}}
}

// c07SourceCase: the subscribe function of the source panics after emitting j notifications.
func c07SourceCase(row cat.Row, word []h.Ev, j int, kind int, clean []h.Ev) fw.Case {
	nm := fmt.Sprintf("subscribe-fn@%d/%s:%s", j, faultKinds[kind], h.Word(word))
	faulty := append(append([]h.Ev{}, word[:j]...), h.Ev{K: 99})
	return fw.Case{Name: nm, Opts: seqOpts(row), Make: func() fw.Instance {
		run := &c07run{rec: h.NewRec("out"), env: cat.NewEnv()}
		body := func() {
			run.hooks = h.BeginHooks()
			panicKind = kind
			guard(&run.escaped, "Subscribe", func() {
				row.Start(cat.Setup{Kind: cat.SrcScript, Word: faulty, Rec: run.rec, Env: run.env})
			})
		}
		return fw.Instance{Body: body, Outcome: run.rec.Trace, Check: func(r *vrt.Result) []fw.Violation {
			if row.Has(cat.NoSubscribe) {
				return nil
			}
			// a failing subscribe function is an error of the source like any other: the pipeline must
			// behave as the reference model does on [prefix, Error(cause)]
			want := row.Model(h.LegalPrefix(append(append([]h.Ev{}, word[:j]...), h.Er(h.ErrCb))))
			got := run.rec.Events()
			sig := "fault/" + row.Name + "/subscribe-function:"
			where := fmt.Sprintf("input [%s], %s in the source's subscribe function after %d notifications", h.Word(word), faultKinds[kind], j)
			var out []fw.Violation
			if run.escaped != "" {
				out = append(out, fw.V(sig+"panic-escaped-to-caller/"+faultKinds[kind], where+": "+run.escaped))
			}
			if r.Crash != nil {
				out = append(out, fw.V(sig+"goroutine-top-panic/"+faultKinds[kind], where+": "+r.Crash.Value))
			}
			same := len(got) == len(want)
			for i := 0; same && i < len(got); i++ {
				if want[i].K == h.E && errors.Is(want[i].Err, h.ErrCb) {
					same = got[i].K == h.E && matchesCause(got[i].Err, kind)
				} else {
					same = h.SameEv(got[i], want[i])
				}
			}
			if !same {
				out = append(out, fw.V(sig+"source-failure-not-treated-as-error/"+diffClass(got, want), fmt.Sprintf("%s: delivered [%s]; the definition on [%s E(cause)] gives [%s]", where, h.Word(got), h.Word(word[:j]), h.Word(want))))
			}
			return out
		}}
	}}
}

var panicKind int

func init() {
	// the script source raises the configured panic when it meets the pseudo-notification 99
	h.PanicEvent = func() {
		if panicKind == 0 {
			panic(h.ErrCb)
		}
		panic(cat.PanicString)
	}
	Registry["C07"] = func(tier string) []fw.Scenario {
		L := 2
		if tier == "thorough" {
			L = 3
		}
		rows, pairs := rowsAndPairs()
		if tier != "thorough" {
			// quick: pairs over a core of operators that have callbacks
			var core []cat.Row
			for _, p := range pairs {
				if strings.Count(p.Name, "(") >= 1 && (strings.HasPrefix(p.Name, "Map(x2) | ") || strings.HasPrefix(p.Name, "Filter(odd) | ") || strings.HasPrefix(p.Name, "Scan(+,10) | ") || strings.HasSuffix(p.Name, " | Map(x2)") || strings.HasSuffix(p.Name, " | TakeWhile(odd)")) {
					core = append(core, p)
				}
			}
			pairs = core
		}
		{
			var keep []cat.Row
			for _, p := range pairs {
				bad := false
				for _, fam := range []string{"Catch", "OnErrorReturn", "OnErrorResumeNextWith", "Retry", "Materialize", "Dematerialize"} {
					if strings.Contains(p.Family, fam) {
						bad = true // the second operator may legitimately handle the first one's failure
					}
				}
				if strings.HasSuffix(p.Name, "MergeWith(Empty,Empty)[spare cap]") {
					// the second operator delivers the first one's completion only after its other sources:
					// a late failure of the first operator (after it completed) cannot be told from an
					// early one by looking at the final observer
					bad = true
				}
				if !bad {
					keep = append(keep, p)
				}
			}
			pairs = keep
		}
		observerRows := map[string]bool{"Map(x2)": true, "Take(1)": true, "Scan(+,10)": true, "Serialize": true, "ToSlice": true}
		var scns []fw.Scenario
		addRow := func(row cat.Row, n int, group string) {
			scns = append(scns, fw.Scenario{ID: "C07/" + row.Name, Group: group, Run: func(c *fw.Ctx) {
				for _, w := range legalN(row, n) {
					if isOpen(w) && row.Has(cat.Blocking) {
						continue
					}
					// clean run: discover slots
					env := cat.NewEnv()
					rec := h.NewRec("clean")
					vrt.Run(seqOpts(row), nil, func() {
						h.BeginHooks()
						row.Start(cat.Setup{Kind: cat.SrcScript, Word: w, Rec: rec, Env: env})
					})
					clean := rec.Events()
					for _, slot := range env.Order {
						hits := env.Hits[slot]
						if hits > 3 {
							hits = 3
						}
						kinds := []int{0, 1}
						if env.ErrSlots[slot] {
							kinds = append(kinds, 2)
						}
						for i := 0; i < hits; i++ {
							for _, k := range kinds {
								c.Explore(c07OperatorCase(row, w, cat.Fault{Slot: slot, Index: i, Kind: k}, clean))
							}
						}
					}
					if group != "pairs" && observerRows[row.Name] {
						for i := 0; i < len(clean); i++ {
							for _, k := range []int{0, 1} {
								c.Explore(c07ObserverCase(row, w, i, k, clean))
							}
						}
					}
					if group != "pairs" && row.Family != "Materialize" && row.Family != "Dematerialize" {
						for j := 0; j <= len(w); j++ {
							for _, k := range []int{0, 1} {
								c.Explore(c07SourceCase(row, w, j, k, clean))
							}
						}
					}
				}
			}})
		}
		for _, row := range rows {
			addRow(row, L, row.Family)
		}
		for _, row := range pairs {
			addRow(row, L, "pairs")
		}
		scns = append(scns, c07Async(tier)...)
		scns = append(scns, c07Concurrent(tier)...)
		scns = append(scns, c07HandOff(tier)...)
		return scns
	}
}

// c07Async: fault positions that run on library goroutines (Future, Start, timers' callbacks).
func c07Async(tier string) []fw.Scenario {
	var scns []fw.Scenario
	type asyncOp struct {
		name string
		mk   func(fail func()) func(rec *h.Rec)
	}
	ops := []asyncOp{
		{"Future:factory", func(fail func()) func(rec *h.Rec) {
			return func(rec *h.Rec) {
				sub(ro.Future(func() (int, error) { fail(); return 1, nil }), rec)
			}
		}},
		{"Start:callback", func(fail func()) func(rec *h.Rec) {
			return func(rec *h.Rec) { sub(ro.Start(func() int { fail(); return 1 }), rec) }
		}},
		{"Defer:factory", func(fail func()) func(rec *h.Rec) {
			return func(rec *h.Rec) { sub(ro.Defer(func() ro.Observable[int] { fail(); return ro.Just(1) }), rec) }
		}},
		{"Iif:predicate", func(fail func()) func(rec *h.Rec) {
			return func(rec *h.Rec) {
				sub(ro.Defer(ro.Iif(func() bool { fail(); return true }, ro.Just(1), ro.Just(2))), rec)
			}
		}},
		{"Interval|Map:project", func(fail func()) func(rec *h.Rec) {
			return func(rec *h.Rec) {
				sub(ro.Take[int](2)(ro.Map(func(v int64) int { fail(); return int(v) })(ro.Interval(u))), rec)
			}
		}},
		{"Delay|Map:project", func(fail func()) func(rec *h.Rec) {
			return func(rec *h.Rec) {
				sub(ro.Map(func(v int) int { fail(); return v })(ro.Delay[int](u)(ro.Just(1, 2))), rec)
			}
		}},
		{"ObserveOn|Map:project", func(fail func()) func(rec *h.Rec) {
			return func(rec *h.Rec) {
				sub(ro.Map(func(v int) int { fail(); return v })(ro.ObserveOn[int](1)(ro.Just(1, 2))), rec)
			}
		}},
		{"FromChannel|Map:project", func(fail func()) func(rec *h.Rec) {
			return func(rec *h.Rec) {
				ch := make(chan int, 2)
				ch <- 1
				ch <- 2
				close(ch)
				sub(ro.Map(func(v int) int { fail(); return v })(ro.FromChannel[int](ch)), rec)
			}
		}},
		{"ThrowOnContextCancel|Map:project", func(fail func()) func(rec *h.Rec) {
			return func(rec *h.Rec) {
				ro.Map(func(v int) int { fail(); return v })(ro.ThrowOnContextCancel[int]()(ro.Just(1, 2))).SubscribeWithContext(context.Background(), h.Observer[int](rec))
			}
		}},
	}
	for _, op := range ops {
		op := op
		for kind := 0; kind < 2; kind++ {
			kind := kind
			scns = append(scns, fw.Scenario{ID: fmt.Sprintf("C07/async/%s/%s", op.name, faultKinds[kind]), Group: "async", Run: func(c *fw.Ctx) {
				c.Explore(fw.Case{Name: "fault#0", Bound: 0, Opts: vrt.Options{MaxTime: int64(10 * u)}, Make: func() fw.Instance {
					run := &c07run{rec: h.NewRec("out"), env: cat.NewEnv()}
					fired := false
					fail := func() {
						if !fired {
							fired = true
							run.termAtFire = hasTerminal(run.rec.Events())
							if kind == 0 {
								panic(h.ErrCb)
							}
							panic(cat.PanicString)
						}
					}
					body := func() {
						run.hooks = h.BeginHooks()
						guard(&run.escaped, "Subscribe", func() { op.mk(fail)(run.rec) })
					}
					return fw.Instance{Body: body, Outcome: run.rec.Trace, Check: func(r *vrt.Result) []fw.Violation {
						if !fired {
							return nil
						}
						return faultCheck("fault/"+strings.Replace(op.name, ":", "/", 1)+":", faultKinds[kind]+" in "+op.name, kind, run, []h.Ev{h.Nx(0), h.Nx(1), h.Nx(2), h.Nx(1), h.Nx(2)}, r)
					}}
				}})
			}})
		}
	}
	return scns
}

// c07Concurrent: one goroutine emits values, another one fails (an Error notification, or a panic of the
// subscribe function) while a value may be in flight: the failure must still reach the subscriber, once.
func c07Concurrent(tier string) []fw.Scenario {
	bound := 2
	if tier == "thorough" {
		bound = 3
	}
	type dest struct {
		name string
		mode h.Mode
		wrap func(ro.Observable[int]) ro.Observable[int]
	}
	dests := []dest{
		{"NewSafeObservable", h.Safe, nil},
		{"NewEventuallySafeObservable", h.Eventually, nil},
		{"Serialize", h.Unsafe, func(o ro.Observable[int]) ro.Observable[int] { return ro.Serialize[int]()(o) }},
		{"Safe|Map", h.Safe, func(o ro.Observable[int]) ro.Observable[int] { return ro.Map(func(v int) int { return v })(o) }},
		{"EventuallySafe|Scan", h.Eventually, func(o ro.Observable[int]) ro.Observable[int] {
			return ro.Scan(func(a, v int) int { return v }, 0)(o)
		}},
	}
	var scns []fw.Scenario
	for _, d := range dests {
		d := d
		for _, how := range []string{"error-notification", "subscribe-function-panic"} {
			how := how
			scns = append(scns, fw.Scenario{ID: "C07/conc/" + d.name + "/" + how, Group: "concurrent", Run: func(c *fw.Ctx) {
				c.Explore(fw.Case{Name: how, Bound: bound, Sample: true, Make: func() fw.Instance {
					rec := h.NewRec("out")
					rec.YieldIn = true
					var hooks *h.Hooks
					var escaped string
					body := func() {
						hooks = h.BeginHooks()
						if how == "error-notification" {
							o, p := h.Pushed[int](h.NewSrc("src"), d.mode)
							if d.wrap != nil {
								o = d.wrap(o)
							}
							sub(o, rec)
							vrt.GoNamed("values", func() { p.Next(1); p.Next(2) })
							vrt.GoNamed("failure", func() { p.Error(h.ErrCb) })
							return
						}
						// the subscribe function hands its destination to a goroutine that keeps emitting, then panics
						mk := ro.NewSafeObservable[int]
						if d.mode == h.Eventually {
							mk = ro.NewEventuallySafeObservable[int]
						} else if d.mode == h.Unsafe {
							mk = ro.NewUnsafeObservable[int]
						}
						o := mk(func(dst ro.Observer[int]) ro.Teardown {
							vrt.GoNamed("values", func() { dst.Next(1); dst.Next(2) })
							vrt.Yield()
							panic(h.ErrCb)
						})
						if d.wrap != nil {
							o = d.wrap(o)
						}
						guard(&escaped, "Subscribe", func() { sub(o, rec) })
					}
					return fw.Instance{Body: body, Outcome: rec.Trace, Nontrivial: func(r *vrt.Result) bool { return r.Switches > 2 }, Check: func(r *vrt.Result) []fw.Violation {
						var out []fw.Violation
						sig := "concurrent/" + d.name + "/" + how + ":"
						evs := rec.Events()
						nE := 0
						for _, e := range evs {
							if e.K == h.E {
								nE++
								if !matchesCause(e.Err, 0) {
									out = append(out, fw.V(sig+"error-does-not-match-cause/value", fmt.Sprintf("trace [%s]: error %q", rec.Trace(), e.Err)))
								}
							}
						}
						if nE != 1 {
							cls := "lost"
							if nE > 1 {
								cls = "duplicated"
							}
							out = append(out, fw.V(sig+"failure-exactly-once/"+cls, fmt.Sprintf("one failure was raised while another goroutine was emitting values; the subscriber received [%s] (dropped-notification hook: %v, unhandled-error hook: %d)", rec.Trace(), hooks.Dropped, len(hooks.Unhandled))))
						}
						if g := h.GrammarError(evs); g != "" {
							out = append(out, fw.V(sig+"grammar-after-fault/"+grammarClass(evs), g))
						}
						if escaped != "" {
							out = append(out, fw.V(sig+"panic-escaped-to-caller/subscribe", escaped))
						}
						if r.Crash != nil {
							out = append(out, fw.V(sig+"goroutine-top-panic/"+r.Crash.Name, r.Crash.Value))
						}
						if len(r.Blocked) > 0 {
							out = append(out, fw.V(sig+"blocked/"+blockedSummary(r), "a thread never returned: "+blockedSummary(r)))
						}
						return out
					}}
				}})
			}})
		}
	}
	return scns
}
