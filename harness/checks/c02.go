package checks

import (
	"context"
	"fmt"
	"time"

	"github.com/samber/lo"
	"github.com/samber/ro"
	"verif.local/harness/fw"
	"verif.local/harness/h"
	"verif.local/vrt"
)

// C02 - serialized delivery. Every scenario: k producers (threads or the virtual clock) feed one
// pipeline whose final observer yields inside every callback; all schedules up to the bound are run
// and no two callbacks of one observer may ever be in progress together.

const u = time.Millisecond

// concOp is a pipeline fed by two pushed int sources.
type concOp struct {
	name  string
	build func(a, b ro.Observable[int], set *recSet, out *h.Rec, place string) ro.Subscription
	wa    []h.Ev // script of producer A (nil = default)
	wb    []h.Ev
	// oneDest: both producers push into source a (b is unused): "one producer from many goroutines".
	oneDest bool
	modeA   h.Mode
	maxTime time.Duration
	slowFirst bool // the observer spends 2u of virtual time inside its first callback (periodic sources)
	heavy   bool // more than three threads: one deviation less
}

// place appends the downstream placement to an int pipeline.
func placeInt(o ro.Observable[int], place string) ro.Observable[int] {
	switch place {
	case "map":
		return ro.Map(func(v int) int { return v })(o)
	case "startwith":
		return ro.StartWith(0)(o)
	case "taponsubscribe":
		return ro.TapOnSubscribe[int](func() {})(o)
	case "taponfinalize":
		return ro.TapOnFinalize[int](func() {})(o)
	case "catch":
		return ro.Catch(func(err error) ro.Observable[int] { return ro.Empty[int]() })(o)
	}
	return o
}

func placeAny[T any](o ro.Observable[T], place string) ro.Observable[T] {
	switch place {
	case "map":
		return ro.Map(func(v T) T { return v })(o)
	case "startwith":
		var z T
		return ro.StartWith(z)(o)
	case "taponsubscribe":
		return ro.TapOnSubscribe[T](func() {})(o)
	case "taponfinalize":
		return ro.TapOnFinalize[T](func() {})(o)
	case "catch":
		return ro.Catch(func(err error) ro.Observable[T] { return ro.Empty[T]() })(o)
	}
	return o
}

func intOp(name string, f func(a, b ro.Observable[int]) ro.Observable[int]) concOp {
	return concOp{name: name, build: func(a, b ro.Observable[int], set *recSet, out *h.Rec, place string) ro.Subscription {
		return sub(placeInt(f(a, b), place), out)
	}}
}

func anyOp[T any](name string, f func(a, b ro.Observable[int]) ro.Observable[T]) concOp {
	return concOp{name: name, build: func(a, b ro.Observable[int], set *recSet, out *h.Rec, place string) ro.Subscription {
		return sub(placeAny(f(a, b), place), out)
	}}
}

func c02Ops() []concOp {
	ops := []concOp{
		intOp("Merge", func(a, b ro.Observable[int]) ro.Observable[int] { return ro.Merge(a, b) }),
		intOp("MergeWith", func(a, b ro.Observable[int]) ro.Observable[int] { return ro.MergeWith(b)(a) }),
		intOp("MergeWith1", func(a, b ro.Observable[int]) ro.Observable[int] { return ro.MergeWith1(b)(a) }),
		intOp("MergeAll", func(a, b ro.Observable[int]) ro.Observable[int] {
			return ro.MergeAll[int]()(ro.Just[ro.Observable[int]](a, b))
		}),
		intOp("MergeMap", func(a, b ro.Observable[int]) ro.Observable[int] {
			return ro.MergeMap(func(i int) ro.Observable[int] {
				if i == 0 {
					return a
				}
				return b
			})(ro.Just(0, 1))
		}),
		anyOp("CombineLatest2", func(a, b ro.Observable[int]) ro.Observable[lo.Tuple2[int, int]] { return ro.CombineLatest2(a, b) }),
		anyOp("CombineLatestWith1", func(a, b ro.Observable[int]) ro.Observable[lo.Tuple2[int, int]] {
			return ro.CombineLatestWith1[int](b)(a)
		}),
		anyOp("CombineLatest3", func(a, b ro.Observable[int]) ro.Observable[lo.Tuple3[int, int, int]] {
			return ro.CombineLatest3(a, b, ro.Just(5))
		}),
		anyOp("CombineLatestAll", func(a, b ro.Observable[int]) ro.Observable[[]int] {
			return ro.CombineLatestAll[int]()(ro.Just[ro.Observable[int]](a, b))
		}),
		anyOp("Zip2", func(a, b ro.Observable[int]) ro.Observable[lo.Tuple2[int, int]] { return ro.Zip2(a, b) }),
		anyOp("Zip3", func(a, b ro.Observable[int]) ro.Observable[lo.Tuple3[int, int, int]] {
			return ro.Zip3(a, b, ro.Just(5, 6))
		}),
		anyOp("Zip", func(a, b ro.Observable[int]) ro.Observable[[]int] { return ro.Zip(a, b) }),
		intOp("Race", func(a, b ro.Observable[int]) ro.Observable[int] { return ro.Race(a, b) }),
		intOp("RaceWith", func(a, b ro.Observable[int]) ro.Observable[int] { return ro.RaceWith(b)(a) }),
		intOp("Amb", func(a, b ro.Observable[int]) ro.Observable[int] { return ro.Amb(a, b) }),
		intOp("TakeUntil", func(a, b ro.Observable[int]) ro.Observable[int] { return ro.TakeUntil[int](b)(a) }),
		intOp("SkipUntil", func(a, b ro.Observable[int]) ro.Observable[int] { return ro.SkipUntil[int](b)(a) }),
		anyOp("BufferWhen", func(a, b ro.Observable[int]) ro.Observable[[]int] { return ro.BufferWhen[int](b)(a) }),
		intOp("SampleWhen", func(a, b ro.Observable[int]) ro.Observable[int] { return ro.SampleWhen[int](b)(a) }),
		intOp("ThrottleWhen", func(a, b ro.Observable[int]) ro.Observable[int] { return ro.ThrottleWhen[int](b)(a) }),
		anyOp("SequenceEqual", func(a, b ro.Observable[int]) ro.Observable[bool] { return ro.SequenceEqual(b)(a) }),
		intOp("ConcatWith", func(a, b ro.Observable[int]) ro.Observable[int] { return ro.ConcatWith(b)(a) }),
		{name: "WindowWhen", build: func(a, b ro.Observable[int], set *recSet, out *h.Rec, place string) ro.Subscription {
			out.Hook = innerHook[int](set, true)
			return sub(placeAny(ro.WindowWhen[int](b)(a), place), out)
		}},
		{name: "GroupBy+Merge", build: func(a, b ro.Observable[int], set *recSet, out *h.Rec, place string) ro.Subscription {
			out.Hook = innerHook[int](set, true)
			return sub(placeAny(ro.GroupBy(func(v int) int { return v % 2 })(ro.Merge(a, b)), place), out)
		}},
		// higher-order operators whose OUTER observable is asynchronous too: it hands over the inner
		// observables and completes on its own goroutine while the inner ones emit on theirs
		{name: "MergeAll(async outer)", heavy: true, build: func(a, b ro.Observable[int], set *recSet, out *h.Rec, place string) ro.Subscription {
			outer, po := h.Pushed[ro.Observable[int]](h.NewSrc("outer"), h.Unsafe)
			s := sub(placeInt(ro.MergeAll[int]()(outer), place), out)
			vrt.GoNamed("producerOuter", func() { po.Next(a); po.Next(b); po.Complete() })
			return s
		}},
		{name: "CombineLatestAll(async outer)", heavy: true, build: func(a, b ro.Observable[int], set *recSet, out *h.Rec, place string) ro.Subscription {
			outer, po := h.Pushed[ro.Observable[int]](h.NewSrc("outer"), h.Unsafe)
			s := sub(placeAny(ro.CombineLatestAll[int]()(outer), place), out)
			vrt.GoNamed("producerOuter", func() { po.Next(a); po.Next(b); po.Complete() })
			return s
		}},
		{name: "MergeMap(async source)", heavy: true, build: func(a, b ro.Observable[int], set *recSet, out *h.Rec, place string) ro.Subscription {
			outer, po := h.Pushed[int](h.NewSrc("outer"), h.Unsafe)
			s := sub(placeInt(ro.MergeMap(func(i int) ro.Observable[int] {
				if i == 0 {
					return a
				}
				return b
			})(outer), place), out)
			vrt.GoNamed("producerOuter", func() { po.Next(0); po.Next(1); po.Complete() })
			return s
		}},
		// operators that deliver a terminal from a goroutine of their own when the SUBSCRIPTION context ends:
		// a canceller goroutine cancels it while the producers are delivering
		{name: "ThrowOnContextCancel(cancelled while delivering)", build: func(a, b ro.Observable[int], set *recSet, out *h.Rec, place string) ro.Subscription {
			ctx, cancel := context.WithCancel(ctxWith())
			s := placeInt(ro.ThrowOnContextCancel[int]()(a), place).SubscribeWithContext(ctx, h.Observer[int](out))
			vrt.GoNamed("canceller", func() { cancel() })
			return s
		}},
		{name: "Map|ThrowOnContextCancel(cancelled while delivering)", build: func(a, b ro.Observable[int], set *recSet, out *h.Rec, place string) ro.Subscription {
			ctx, cancel := context.WithCancel(ctxWith())
			s := placeInt(ro.ThrowOnContextCancel[int]()(ro.Map(func(v int) int { return v })(a)), place).SubscribeWithContext(ctx, h.Observer[int](out))
			vrt.GoNamed("canceller", func() { cancel() })
			return s
		}},
		// a subscribe function that fails after it has started delivering from a goroutine of its own: the
		// Error the library makes of the panic must go through the same serialisation as the values
		{name: "NewObservable(starts a producer, then panics)", build: func(a, b ro.Observable[int], set *recSet, out *h.Rec, place string) ro.Subscription {
			o := ro.NewObservableWithContext(func(ctx ctxT, d ro.Observer[int]) ro.Teardown {
				vrt.GoNamed("inner-producer", func() { d.NextWithContext(ctx, 1); d.NextWithContext(ctx, 2) })
				panic(h.ErrCb)
			})
			return sub(placeInt(o, place), out)
		}},
		{name: "TakeUntil(a, notifier whose Subscribe panics)", build: func(a, b ro.Observable[int], set *recSet, out *h.Rec, place string) ro.Subscription {
			bad := ro.NewObservable(func(d ro.Observer[int]) ro.Teardown { panic(h.ErrCb) })
			return sub(placeInt(ro.TakeUntil[int](bad)(a), place), out)
		}},
		// one producer calling a safe destination from two goroutines
		{name: "SafeObservable", oneDest: true, modeA: h.Safe, build: func(a, b ro.Observable[int], set *recSet, out *h.Rec, place string) ro.Subscription {
			return sub(placeInt(a, place), out)
		}},
		{name: "EventuallySafeObservable", oneDest: true, modeA: h.Eventually, build: func(a, b ro.Observable[int], set *recSet, out *h.Rec, place string) ro.Subscription {
			return sub(placeInt(a, place), out)
		}},
		{name: "Serialize", oneDest: true, modeA: h.Unsafe, build: func(a, b ro.Observable[int], set *recSet, out *h.Rec, place string) ro.Subscription {
			return sub(placeInt(ro.Serialize[int]()(a), place), out)
		}},
		{name: "Safe+Map", oneDest: true, modeA: h.Safe, build: func(a, b ro.Observable[int], set *recSet, out *h.Rec, place string) ro.Subscription {
			return sub(placeInt(ro.Filter(func(int) bool { return true })(ro.Map(func(v int) int { return v })(a)), place), out)
		}},
		{name: "Share", oneDest: true, modeA: h.Safe, build: func(a, b ro.Observable[int], set *recSet, out *h.Rec, place string) ro.Subscription {
			return sub(placeInt(ro.Share[int]()(a), place), out)
		}},
		{name: "Share(Merge)", build: func(a, b ro.Observable[int], set *recSet, out *h.Rec, place string) ro.Subscription {
			return sub(placeInt(ro.Share[int]()(ro.Merge(a, b)), place), out)
		}},
		{name: "ObserveOn(Merge)", heavy: true, build: func(a, b ro.Observable[int], set *recSet, out *h.Rec, place string) ro.Subscription {
			return sub(placeInt(ro.ObserveOn[int](2)(ro.Merge(a, b)), place), out)
		}},
		{name: "Merge(ObserveOn,ObserveOn)", heavy: true, build: func(a, b ro.Observable[int], set *recSet, out *h.Rec, place string) ro.Subscription {
			return sub(placeInt(ro.Merge(ro.ObserveOn[int](1)(a), ro.ObserveOn[int](1)(b)), place), out)
		}},
		{name: "ThrowOnContextCancel(Merge)", build: func(a, b ro.Observable[int], set *recSet, out *h.Rec, place string) ro.Subscription {
			return sub(placeInt(ro.ThrowOnContextCancel[int]()(ro.Merge(a, b)), place), out)
		}},
		// time-driven: the clock is a producer too
		{name: "Delay", wa: wordC(1, 2), wb: []h.Ev{}, maxTime: 10 * u, build: func(a, b ro.Observable[int], set *recSet, out *h.Rec, place string) ro.Subscription {
			return sub(placeInt(ro.Delay[int](2*u)(a), place), out)
		}},
		{name: "Timeout", wa: ints(1, 2), wb: []h.Ev{}, maxTime: 10 * u, build: func(a, b ro.Observable[int], set *recSet, out *h.Rec, place string) ro.Subscription {
			return sub(placeInt(ro.Timeout[int](1*u)(a), place), out)
		}},
		{name: "BufferWithTime", wa: wordC(1, 2), wb: []h.Ev{}, maxTime: 5 * u, build: func(a, b ro.Observable[int], set *recSet, out *h.Rec, place string) ro.Subscription {
			return sub(placeAny(ro.BufferWithTime[int](1*u)(a), place), out)
		}},
		{name: "BufferWithTimeOrCount", wa: wordC(1, 2, 3), wb: []h.Ev{}, maxTime: 5 * u, build: func(a, b ro.Observable[int], set *recSet, out *h.Rec, place string) ro.Subscription {
			return sub(placeAny(ro.BufferWithTimeOrCount[int](2, 1*u)(a), place), out)
		}},
		{name: "SampleTime", wa: wordC(1, 2), wb: []h.Ev{}, maxTime: 5 * u, build: func(a, b ro.Observable[int], set *recSet, out *h.Rec, place string) ro.Subscription {
			return sub(placeInt(ro.SampleTime[int](1*u)(a), place), out)
		}},
		{name: "Merge(Interval,src)", wa: wordC(1, 2), wb: []h.Ev{}, maxTime: 3 * u, build: func(a, b ro.Observable[int], set *recSet, out *h.Rec, place string) ro.Subscription {
			iv := ro.Map(func(v int64) int { return int(v) + 100 })(ro.Take[int64](2)(ro.Interval(1 * u)))
			return sub(placeInt(ro.Merge(iv, a), place), out)
		}},
		// periodic sources: the subscribing goroutine (a synchronous first value) and the ticker goroutine are the producers
		{name: "Interval(1u)", slowFirst: true, wa: []h.Ev{}, wb: []h.Ev{}, maxTime: 4 * u, build: func(a, b ro.Observable[int], set *recSet, out *h.Rec, place string) ro.Subscription {
			return sub(placeInt(ro.Map(func(v int64) int { return int(v) })(ro.Interval(1*u)), place), out)
		}},
		{name: "IntervalWithInitial(0,1u)", slowFirst: true, wa: []h.Ev{}, wb: []h.Ev{}, maxTime: 4 * u, build: func(a, b ro.Observable[int], set *recSet, out *h.Rec, place string) ro.Subscription {
			return sub(placeInt(ro.Map(func(v int64) int { return int(v) })(ro.IntervalWithInitial(0, 1*u)), place), out)
		}},
		{name: "IntervalWithInitial(1u,1u)", slowFirst: true, wa: []h.Ev{}, wb: []h.Ev{}, maxTime: 4 * u, build: func(a, b ro.Observable[int], set *recSet, out *h.Rec, place string) ro.Subscription {
			return sub(placeInt(ro.Map(func(v int64) int { return int(v) })(ro.IntervalWithInitial(1*u, 1*u)), place), out)
		}},
		{name: "RangeWithInterval(0,3,1u)", slowFirst: true, wa: []h.Ev{}, wb: []h.Ev{}, maxTime: 5 * u, build: func(a, b ro.Observable[int], set *recSet, out *h.Rec, place string) ro.Subscription {
			return sub(placeInt(ro.Map(func(v int64) int { return int(v) })(ro.RangeWithInterval(0, 3, 1*u)), place), out)
		}},
	}
	return ops
}

// subjectOps: 2 producers call one subject directly.
type subjOp struct {
	name string
	mk   func() ro.Subject[int]
}

func subjectKinds() []subjOp {
	return []subjOp{
		{"PublishSubject", func() ro.Subject[int] { return ro.NewPublishSubject[int]() }},
		{"BehaviorSubject", func() ro.Subject[int] { return ro.NewBehaviorSubject[int](0) }},
		{"ReplaySubject", func() ro.Subject[int] { return ro.NewReplaySubject[int](2) }},
		{"AsyncSubject", func() ro.Subject[int] { return ro.NewAsyncSubject[int]() }},
		{"UnicastSubject", func() ro.Subject[int] { return ro.NewUnicastSubject[int](4) }},
	}
}

func overlapCheck(op string, set *recSet) func(r *vrt.Result) []fw.Violation {
	return func(r *vrt.Result) []fw.Violation {
		var out []fw.Violation
		for _, rec := range set.all() {
			if rec.MaxInside > 1 {
				kind := "outer"
				if rec.Name != "out" {
					kind = "inner"
				}
				out = append(out, fw.V("concurrent/"+op+"/overlap/"+kind, rec.Overlap+"; trace so far: "+rec.Trace()))
			}
		}
		return out
	}
}

func init() {
	Registry["C02"] = func(tier string) []fw.Scenario {
		thorough := tier == "thorough"
		var scns []fw.Scenario
		places := []string{"bare", "map", "startwith", "taponsubscribe", "taponfinalize", "catch"}
		for _, op := range c02Ops() {
			op := op
			for _, place := range places {
				place := place
				bound := 2
				if place != "bare" {
					bound = 1
				}
				if thorough {
					bound++
				}
				scns = append(scns, fw.Scenario{ID: "C02/" + op.name + "/" + place, Group: op.name, Run: func(c *fw.Ctx) {
					c.Explore(fw.Case{Name: "2producers", Bound: bound, Sample: place == "bare", Opts: vrt.Options{MaxTime: int64(op.maxTime), DelayBounded: op.heavy}, Make: func() fw.Instance {
						set := &recSet{}
						out := h.NewRec("out")
						out.YieldIn = true
						if op.slowFirst {
							out.Hook = func(r *h.Rec, idx int, e h.Ev) {
								if idx == 0 {
									vrt.HSleep(int64(2 * u))
								}
							}
						}
						set.add(out)
						sa, sb := h.NewSrc("a"), h.NewSrc("b")
						oa, pa := h.Pushed[int](sa, op.modeA)
						ob, pb := h.Pushed[int](sb, h.Unsafe)
						wa, wb := op.wa, op.wb
						if wa == nil {
							wa = wordC(1, 2)
						}
						if wb == nil {
							wb = wordC(7)
						}
						body := func() {
							op.build(oa, ob, set, out, place)
							if op.oneDest {
								vrt.GoNamed("producerA", func() { play(pa, wa) })
								vrt.GoNamed("producerA2", func() { play(pa, wb) })
								return
							}
							vrt.GoNamed("producerA", func() { play(pa, wa) })
							if len(wb) > 0 {
								vrt.GoNamed("producerB", func() { play(pb, wb) })
							}
						}
						return fw.Instance{Body: body, Check: overlapCheck(op.name+"/"+place, set), Outcome: set.outcome, Recorders: set.all,
							Nontrivial: func(r *vrt.Result) bool { return r.Switches > 2 && out.Len() > 0 }}
					}})
					if op.wb != nil || place != "bare" && place != "map" {
						return
					}
					// the same with a producer that fails: an Error racing a value
					c.Explore(fw.Case{Name: "2producers-error", Bound: bound, Opts: vrt.Options{MaxTime: int64(op.maxTime), DelayBounded: op.heavy}, Make: func() fw.Instance {
						set := &recSet{}
						out := h.NewRec("out")
						out.YieldIn = true
						set.add(out)
						oa, pa := h.Pushed[int](h.NewSrc("a"), op.modeA)
						ob, pb := h.Pushed[int](h.NewSrc("b"), h.Unsafe)
						wa := op.wa
						if wa == nil {
							wa = ints(1, 2)
						}
						body := func() {
							op.build(oa, ob, set, out, place)
							vrt.GoNamed("producerA", func() { play(pa, wa) })
							if op.oneDest {
								vrt.GoNamed("producerA2", func() { play(pa, wordE(7)) })
							} else {
								vrt.GoNamed("producerB", func() { play(pb, wordE(7)) })
							}
						}
						return fw.Instance{Body: body, Check: overlapCheck(op.name+"/"+place, set), Outcome: set.outcome, Recorders: set.all,
							Nontrivial: func(r *vrt.Result) bool { return r.Switches > 2 && out.Len() > 0 }}
					}})
				}})
			}
		}
		for _, sk := range subjectKinds() {
			sk := sk
			for _, place := range []string{"bare", "map", "startwith"} {
				place := place
				bound := 2
				if thorough {
					bound = 3
				}
				scns = append(scns, fw.Scenario{ID: "C02/" + sk.name + "/" + place, Group: sk.name, Run: func(c *fw.Ctx) {
					nprod := 2
					c.Explore(fw.Case{Name: fmt.Sprintf("%dproducers", nprod), Bound: bound, Sample: place == "bare", Make: func() fw.Instance {
						set := &recSet{}
						out := h.NewRec("out")
						out.YieldIn = true
						set.add(out)
						out2 := h.NewRec("out2")
						out2.YieldIn = true
						set.add(out2)
						body := func() {
							s := sk.mk()
							sub(placeInt(s.AsObservable(), place), out)
							if sk.name != "UnicastSubject" {
								sub(s.AsObservable(), out2)
							}
							vrt.GoNamed("p1", func() { s.NextWithContext(context.Background(), 1); s.Next(2); s.Complete() })
							vrt.GoNamed("p2", func() { s.Next(7); s.Error(h.ErrSrc) })
						}
						return fw.Instance{Body: body, Check: overlapCheck(sk.name+"/"+place, set), Outcome: set.outcome, Recorders: set.all,
							Nontrivial: func(r *vrt.Result) bool { return r.Switches > 2 }}
					}})
				}})
			}
		}
		return scns
	}
}
