package checks

import (
	"context"
	"fmt"
	"strings"

	"github.com/samber/lo"
	"github.com/samber/ro"
	"verif.local/harness/fw"
	"verif.local/harness/h"
	"verif.local/vrt"
)

// C05 - multi-source operators honour every arrival order of their inputs.

// arrival is one notification of one source.
type arrival struct {
	src int
	e   h.Ev
}

func arrString(as []arrival) string {
	var s []string
	for _, a := range as {
		s = append(s, fmt.Sprintf("%c:%s", 'a'+a.src, a.e.Short()))
	}
	return strings.Join(s, " ")
}

// msModel is the reference definition of a multi-source operator as a state machine over arrivals.
type msModel struct {
	out   []h.Ev
	inner [][]h.Ev // traces of inner observables (windows/groups) in creation order
	sub   []bool   // sources currently subscribed
	done  bool
	step  func(m *msModel, src int, e h.Ev)
}

func (m *msModel) emit(e h.Ev) {
	if m.done {
		return
	}
	m.out = append(m.out, e)
	if e.K != h.N {
		m.done = true
		for i := range m.sub {
			m.sub[i] = false
		}
	}
}

func (m *msModel) feed(a arrival) {
	if m.done || !m.sub[a.src] {
		return
	}
	if a.e.K != h.N {
		m.sub[a.src] = false
	}
	m.step(m, a.src, a.e)
}

type msOp struct {
	name  string
	k     int
	build func(srcs []ro.Observable[int], set *recSet, out *h.Rec) ro.Subscription
	model func() *msModel
	late  bool // also run with inner observers subscribed only after everything was pushed
}

func allSub(k int) []bool {
	s := make([]bool, k)
	for i := range s {
		s[i] = true
	}
	return s
}

func mergeModel(k int) func() *msModel {
	return func() *msModel {
		left := k
		return &msModel{sub: allSub(k), step: func(m *msModel, src int, e h.Ev) {
			switch e.K {
			case h.N, h.E:
				m.emit(e)
			case h.C:
				left--
				if left == 0 {
					m.emit(h.Co())
				}
			}
		}}
	}
}

func concatModel(k int) func() *msModel {
	return func() *msModel {
		sub := make([]bool, k)
		sub[0] = true
		return &msModel{sub: sub, step: func(m *msModel, src int, e h.Ev) {
			switch e.K {
			case h.N, h.E:
				m.emit(e)
			case h.C:
				if src+1 < k {
					m.sub[src+1] = true
				} else {
					m.emit(h.Co())
				}
			}
		}}
	}
}

func combineModel(k int, mk func(vals []int) interface{}) func() *msModel {
	return func() *msModel {
		latest := make([]*int, k)
		left := k
		return &msModel{sub: allSub(k), step: func(m *msModel, src int, e h.Ev) {
			switch e.K {
			case h.N:
				v := e.V.(int)
				latest[src] = &v
				vals := make([]int, k)
				for i, p := range latest {
					if p == nil {
						return
					}
					vals[i] = *p
				}
				m.emit(h.Nx(mk(vals)))
			case h.E:
				m.emit(e)
			case h.C:
				left--
				if left == 0 {
					m.emit(h.Co())
				}
			}
		}}
	}
}

func zipModel(k int, mk func(vals []int) interface{}) func() *msModel {
	return func() *msModel {
		q := make([][]int, k)
		completed := make([]bool, k)
		return &msModel{sub: allSub(k), step: func(m *msModel, src int, e h.Ev) {
			switch e.K {
			case h.N:
				q[src] = append(q[src], e.V.(int))
				for _, x := range q {
					if len(x) == 0 {
						return
					}
				}
				vals := make([]int, k)
				for i := range q {
					vals[i] = q[i][0]
					q[i] = q[i][1:]
				}
				m.emit(h.Nx(mk(vals)))
				for i := range q {
					if completed[i] && len(q[i]) == 0 {
						m.emit(h.Co())
					}
				}
			case h.E:
				m.emit(e)
			case h.C:
				completed[src] = true
				if len(q[src]) == 0 {
					m.emit(h.Co())
				}
			}
		}}
	}
}

func raceModel(k int) func() *msModel {
	return func() *msModel {
		won := -1
		return &msModel{sub: allSub(k), step: func(m *msModel, src int, e h.Ev) {
			if won == -1 {
				won = src
				for i := range m.sub {
					if i != src {
						m.sub[i] = false
					}
				}
			}
			if src == won {
				m.emit(e)
			}
		}}
	}
}

func tup2(v []int) interface{} { return lo.T2(v[0], v[1]) }
func tup3(v []int) interface{} { return lo.T3(v[0], v[1], v[2]) }
func sl(v []int) interface{}   { return append([]int{}, v...) }

func c05Ops() []msOp {
	o2 := func(name string, f func(a, b ro.Observable[int]) ro.Subscription) func(srcs []ro.Observable[int], set *recSet, out *h.Rec) ro.Subscription {
		return nil
	}
	_ = o2
	mk := func(name string, k int, model func() *msModel, build func(s []ro.Observable[int], out *h.Rec) ro.Subscription) msOp {
		return msOp{name: name, k: k, model: model, build: func(srcs []ro.Observable[int], set *recSet, out *h.Rec) ro.Subscription {
			return build(srcs, out)
		}}
	}
	ops := []msOp{
		mk("Merge", 2, mergeModel(2), func(s []ro.Observable[int], out *h.Rec) ro.Subscription { return sub(ro.Merge(s[0], s[1]), out) }),
		mk("Merge3", 3, mergeModel(3), func(s []ro.Observable[int], out *h.Rec) ro.Subscription { return sub(ro.Merge(s[0], s[1], s[2]), out) }),
		mk("MergeWith", 2, mergeModel(2), func(s []ro.Observable[int], out *h.Rec) ro.Subscription { return sub(ro.MergeWith(s[1])(s[0]), out) }),
		mk("MergeWith1", 2, mergeModel(2), func(s []ro.Observable[int], out *h.Rec) ro.Subscription { return sub(ro.MergeWith1(s[1])(s[0]), out) }),
		mk("MergeWith2", 3, mergeModel(3), func(s []ro.Observable[int], out *h.Rec) ro.Subscription {
			return sub(ro.MergeWith2(s[1], s[2])(s[0]), out)
		}),
		mk("MergeAll", 2, mergeModel(2), func(s []ro.Observable[int], out *h.Rec) ro.Subscription {
			return sub(ro.MergeAll[int]()(ro.Just(s[0], s[1])), out)
		}),
		mk("MergeMap", 2, mergeModel(2), func(s []ro.Observable[int], out *h.Rec) ro.Subscription {
			return sub(ro.MergeMap(func(i int) ro.Observable[int] { return s[i] })(ro.Just(0, 1)), out)
		}),
		mk("MergeMapWithContext", 2, mergeModel(2), func(s []ro.Observable[int], out *h.Rec) ro.Subscription {
			return sub(ro.MergeMapWithContext(func(_ context.Context, i int) ro.Observable[int] { return s[i] })(ro.Just(0, 1)), out)
		}),
		mk("MergeMapIWithContext", 2, mergeModel(2), func(s []ro.Observable[int], out *h.Rec) ro.Subscription {
			// the index, not the item, selects the inner source (items 5, 5)
			return sub(ro.MergeMapIWithContext(func(ctx context.Context, _ int, i int64) (context.Context, ro.Observable[int]) { return ctx, s[i] })(ro.Just(5, 5)), out)
		}),
		mk("FlatMapWithContext", 2, concatModel(2), func(s []ro.Observable[int], out *h.Rec) ro.Subscription {
			return sub(ro.FlatMapWithContext(func(_ context.Context, i int) ro.Observable[int] { return s[i] })(ro.Just(0, 1)), out)
		}),
		mk("FlatMapIWithContext", 2, concatModel(2), func(s []ro.Observable[int], out *h.Rec) ro.Subscription {
			return sub(ro.FlatMapIWithContext(func(_ context.Context, _ int, i int64) ro.Observable[int] { return s[i] })(ro.Just(5, 5)), out)
		}),
		mk("CombineLatestWith2", 3, combineModel(3, tup3), func(s []ro.Observable[int], out *h.Rec) ro.Subscription {
			return sub(ro.CombineLatestWith2[int](s[1], s[2])(s[0]), out)
		}),
		mk("ZipWith2", 3, zipModel(3, tup3), func(s []ro.Observable[int], out *h.Rec) ro.Subscription {
			return sub(ro.ZipWith2[int](s[1], s[2])(s[0]), out)
		}),
		mk("Concat", 2, concatModel(2), func(s []ro.Observable[int], out *h.Rec) ro.Subscription { return sub(ro.Concat(s[0], s[1]), out) }),
		mk("Concat3", 3, concatModel(3), func(s []ro.Observable[int], out *h.Rec) ro.Subscription { return sub(ro.Concat(s[0], s[1], s[2]), out) }),
		mk("ConcatWith", 2, concatModel(2), func(s []ro.Observable[int], out *h.Rec) ro.Subscription { return sub(ro.ConcatWith(s[1])(s[0]), out) }),
		mk("ConcatAll", 2, concatModel(2), func(s []ro.Observable[int], out *h.Rec) ro.Subscription {
			return sub(ro.ConcatAll[int]()(ro.Just(s[0], s[1])), out)
		}),
		mk("FlatMap", 2, concatModel(2), func(s []ro.Observable[int], out *h.Rec) ro.Subscription {
			return sub(ro.FlatMap(func(i int) ro.Observable[int] { return s[i] })(ro.Just(0, 1)), out)
		}),
		mk("CombineLatest2", 2, combineModel(2, tup2), func(s []ro.Observable[int], out *h.Rec) ro.Subscription {
			return sub(ro.CombineLatest2(s[0], s[1]), out)
		}),
		mk("CombineLatestWith1", 2, combineModel(2, tup2), func(s []ro.Observable[int], out *h.Rec) ro.Subscription {
			return sub(ro.CombineLatestWith1[int](s[1])(s[0]), out)
		}),
		mk("CombineLatestWith", 2, combineModel(2, tup2), func(s []ro.Observable[int], out *h.Rec) ro.Subscription {
			return sub(ro.CombineLatestWith[int](s[1])(s[0]), out)
		}),
		mk("CombineLatest3", 3, combineModel(3, tup3), func(s []ro.Observable[int], out *h.Rec) ro.Subscription {
			return sub(ro.CombineLatest3(s[0], s[1], s[2]), out)
		}),
		mk("CombineLatestAll", 2, combineModel(2, sl), func(s []ro.Observable[int], out *h.Rec) ro.Subscription {
			return sub(ro.CombineLatestAll[int]()(ro.Just(s[0], s[1])), out)
		}),
		mk("Zip2", 2, zipModel(2, tup2), func(s []ro.Observable[int], out *h.Rec) ro.Subscription { return sub(ro.Zip2(s[0], s[1]), out) }),
		mk("ZipWith1", 2, zipModel(2, tup2), func(s []ro.Observable[int], out *h.Rec) ro.Subscription {
			return sub(ro.ZipWith1[int](s[1])(s[0]), out)
		}),
		mk("ZipWith", 2, zipModel(2, tup2), func(s []ro.Observable[int], out *h.Rec) ro.Subscription { return sub(ro.ZipWith[int](s[1])(s[0]), out) }),
		mk("Zip3", 3, zipModel(3, tup3), func(s []ro.Observable[int], out *h.Rec) ro.Subscription { return sub(ro.Zip3(s[0], s[1], s[2]), out) }),
		mk("Zip", 2, zipModel(2, sl), func(s []ro.Observable[int], out *h.Rec) ro.Subscription { return sub(ro.Zip(s[0], s[1]), out) }),
		mk("ZipAll", 2, zipModel(2, sl), func(s []ro.Observable[int], out *h.Rec) ro.Subscription {
			return sub(ro.ZipAll[int]()(ro.Just(s[0], s[1])), out)
		}),
		mk("Race", 2, raceModel(2), func(s []ro.Observable[int], out *h.Rec) ro.Subscription { return sub(ro.Race(s[0], s[1]), out) }),
		mk("Race3", 3, raceModel(3), func(s []ro.Observable[int], out *h.Rec) ro.Subscription { return sub(ro.Race(s[0], s[1], s[2]), out) }),
		mk("Amb", 2, raceModel(2), func(s []ro.Observable[int], out *h.Rec) ro.Subscription { return sub(ro.Amb(s[0], s[1]), out) }),
		mk("RaceWith", 2, raceModel(2), func(s []ro.Observable[int], out *h.Rec) ro.Subscription { return sub(ro.RaceWith(s[1])(s[0]), out) }),
		mk("TakeUntil", 2, func() *msModel {
			return &msModel{sub: allSub(2), step: func(m *msModel, src int, e h.Ev) {
				if src == 0 {
					m.emit(e)
				} else if e.K == h.N {
					m.emit(h.Co())
				}
			}}
		}, func(s []ro.Observable[int], out *h.Rec) ro.Subscription {
			return sub(ro.TakeUntil[int](s[1])(s[0]), out)
		}),
		mk("SkipUntil", 2, func() *msModel {
			ready := false
			return &msModel{sub: allSub(2), step: func(m *msModel, src int, e h.Ev) {
				if src == 1 {
					if e.K == h.N {
						ready = true
					}
					return
				}
				if e.K != h.N || ready {
					m.emit(e)
				}
			}}
		}, func(s []ro.Observable[int], out *h.Rec) ro.Subscription {
			return sub(ro.SkipUntil[int](s[1])(s[0]), out)
		}),
		mk("BufferWhen", 2, func() *msModel {
			buf := []int{}
			return &msModel{sub: allSub(2), step: func(m *msModel, src int, e h.Ev) {
				flush := func() { m.emit(h.Nx(buf)); buf = []int{} }
				switch {
				case e.K == h.E:
					m.emit(e)
				case src == 0 && e.K == h.N:
					buf = append(buf, e.V.(int))
				case e.K == h.C:
					flush()
					m.emit(h.Co())
				default:
					flush()
				}
			}}
		}, func(s []ro.Observable[int], out *h.Rec) ro.Subscription {
			return sub(ro.BufferWhen[int](s[1])(s[0]), out)
		}),
		mk("SampleWhen", 2, func() *msModel {
			var last *int
			return &msModel{sub: allSub(2), step: func(m *msModel, src int, e h.Ev) {
				switch {
				case e.K != h.N:
					m.emit(e)
				case src == 0:
					v := e.V.(int)
					last = &v
				default:
					if last != nil {
						m.emit(h.Nx(*last))
						last = nil
					}
				}
			}}
		}, func(s []ro.Observable[int], out *h.Rec) ro.Subscription {
			return sub(ro.SampleWhen[int](s[1])(s[0]), out)
		}),
		mk("ThrottleWhen", 2, func() *msModel {
			open := false
			return &msModel{sub: allSub(2), step: func(m *msModel, src int, e h.Ev) {
				switch {
				case e.K != h.N:
					m.emit(e)
				case src == 1:
					open = true
				default:
					if open {
						open = false
						m.emit(e)
					}
				}
			}}
		}, func(s []ro.Observable[int], out *h.Rec) ro.Subscription {
			return sub(ro.ThrottleWhen[int](s[1])(s[0]), out)
		}),
		mk("SequenceEqual", 2, func() *msModel {
			z := zipModel(2, tup2)()
			return &msModel{sub: allSub(2), step: func(m *msModel, src int, e h.Ev) {
				before := len(z.out)
				z.sub[src] = true
				z.feed(arrival{src, e})
				for _, o := range z.out[before:] {
					switch o.K {
					case h.N:
						t := o.V.(lo.Tuple2[int, int])
						if t.A != t.B {
							m.emit(h.Nx(false))
							m.emit(h.Co())
						}
					case h.E:
						m.emit(o)
					case h.C:
						m.emit(h.Nx(true))
						m.emit(h.Co())
					}
				}
			}}
		}, func(s []ro.Observable[int], out *h.Rec) ro.Subscription {
			return sub(ro.SequenceEqual(s[1])(s[0]), out)
		}),
	}
	// higher-order: windows and groups, inner observers attached at emission and (late) after the end
	for _, late := range []bool{false, true} {
		late := late
		sfx := ""
		if late {
			sfx = "(inner subscribed late)"
		}
		ops = append(ops, msOp{name: "WindowWhen" + sfx, k: 2, late: late, model: func() *msModel {
			m := &msModel{sub: allSub(2)}
			m.inner = [][]h.Ev{{}}
			m.out = []h.Ev{h.Nx("window")}
			closeCur := func(e h.Ev) { m.inner[len(m.inner)-1] = append(m.inner[len(m.inner)-1], e) }
			m.step = func(m *msModel, src int, e h.Ev) {
				switch {
				case src == 0 && e.K == h.N:
					closeCur(e)
				case e.K == h.N:
					closeCur(h.Co())
					m.inner = append(m.inner, []h.Ev{})
					m.emit(h.Nx("window"))
				default:
					closeCur(h.Co())
					m.emit(e)
				}
			}
			return m
		}, build: func(s []ro.Observable[int], set *recSet, out *h.Rec) ro.Subscription {
			return subInner(ro.WindowWhen[int](s[1])(s[0]), set, out, late, "window")
		}})
		ops = append(ops, msOp{name: "GroupBy(v%2)" + sfx, k: 1, late: late, model: func() *msModel {
			m := &msModel{sub: allSub(1)}
			idx := map[int]int{}
			m.step = func(m *msModel, src int, e h.Ev) {
				switch e.K {
				case h.N:
					k := e.V.(int) % 2
					if _, ok := idx[k]; !ok {
						idx[k] = len(m.inner)
						m.inner = append(m.inner, []h.Ev{})
						m.inner[idx[k]] = append(m.inner[idx[k]], e)
						m.emit(h.Nx("group"))
						return
					}
					m.inner[idx[k]] = append(m.inner[idx[k]], e)
				default:
					m.emit(e)
					for i := range m.inner {
						m.inner[i] = append(m.inner[i], e)
					}
				}
			}
			return m
		}, build: func(s []ro.Observable[int], set *recSet, out *h.Rec) ro.Subscription {
			return subInner(ro.GroupBy(func(v int) int { return v % 2 })(s[0]), set, out, late, "group")
		}})
		// the indexed / context-aware variants: the key is the parity of the item's POSITION (GroupByI, GroupByIWithContext)
		// or of its value (GroupByWithContext)
		for _, gv := range []struct {
			name  string
			byPos bool
			build func(src ro.Observable[int]) ro.Observable[ro.Observable[int]]
		}{
			{"GroupByI(i%2)", true, func(src ro.Observable[int]) ro.Observable[ro.Observable[int]] {
				return ro.GroupByI(func(_ int, i int64) int { return int(i % 2) })(src)
			}},
			{"GroupByIWithContext(i%2)", true, func(src ro.Observable[int]) ro.Observable[ro.Observable[int]] {
				return ro.GroupByIWithContext(func(ctx context.Context, _ int, i int64) (context.Context, int) { return ctx, int(i % 2) })(src)
			}},
			{"GroupByWithContext(v%2)", false, func(src ro.Observable[int]) ro.Observable[ro.Observable[int]] {
				return ro.GroupByWithContext(func(ctx context.Context, v int) (context.Context, int) { return ctx, v % 2 })(src)
			}},
		} {
			gv := gv
			ops = append(ops, msOp{name: gv.name + sfx, k: 1, late: late, model: func() *msModel {
				m := &msModel{sub: allSub(1)}
				idx := map[int]int{}
				pos := 0
				m.step = func(m *msModel, src int, e h.Ev) {
					switch e.K {
					case h.N:
						k := e.V.(int) % 2
						if gv.byPos {
							k = pos % 2
						}
						pos++
						if _, ok := idx[k]; !ok {
							idx[k] = len(m.inner)
							m.inner = append(m.inner, []h.Ev{e})
							m.emit(h.Nx("group"))
							return
						}
						m.inner[idx[k]] = append(m.inner[idx[k]], e)
					default:
						m.emit(e)
						for i := range m.inner {
							m.inner[i] = append(m.inner[i], e)
						}
					}
				}
				return m
			}, build: func(s []ro.Observable[int], set *recSet, out *h.Rec) ro.Subscription {
				return subInner(gv.build(s[0]), set, out, late, "group")
			}})
		}
		// three keys and longer scripts (an old key, a new key, the old one again, the new one again, ...)
		ops = append(ops, msOp{name: "GroupBy(v%3)" + sfx, k: 1, late: late, model: func() *msModel {
			m := &msModel{sub: allSub(1)}
			idx := map[int]int{}
			m.step = func(m *msModel, src int, e h.Ev) {
				switch e.K {
				case h.N:
					k := e.V.(int) % 3
					if _, ok := idx[k]; !ok {
						idx[k] = len(m.inner)
						m.inner = append(m.inner, []h.Ev{})
						m.inner[idx[k]] = append(m.inner[idx[k]], e)
						m.emit(h.Nx("group"))
						return
					}
					m.inner[idx[k]] = append(m.inner[idx[k]], e)
				default:
					m.emit(e)
					for i := range m.inner {
						m.inner[i] = append(m.inner[i], e)
					}
				}
			}
			return m
		}, build: func(s []ro.Observable[int], set *recSet, out *h.Rec) ro.Subscription {
			return subInner(ro.GroupBy(func(v int) int { return v % 3 })(s[0]), set, out, late, "group")
		}})
	}
	return ops
}

// lateInner remembers inner observables to subscribe after the run.
type lateInner struct {
	obs []ro.Observable[int]
}

//go:norace
func (l *lateInner) add(o ro.Observable[int]) { l.obs = append(l.obs, o) }

var curLate *lateInner

// subInner subscribes out to an observable of observables; each inner observable is recorded as the
// value `tag` and gets its own recorder, at emission or (late) when flushLate is called.
func subInner(o ro.Observable[ro.Observable[int]], set *recSet, out *h.Rec, late bool, tag string) ro.Subscription {
	li := &lateInner{}
	curLate = li
	mapped := ro.Map(func(inner ro.Observable[int]) string {
		if late {
			li.add(inner)
		} else {
			ir := h.NewRec(fmt.Sprintf("inner%d", len(set.all())))
			set.add(ir)
			inner.Subscribe(h.Observer[int](ir))
		}
		return tag
	})(o)
	return sub(mapped, out)
}

func flushLate(set *recSet) {
	li := curLate
	if li == nil {
		return
	}
	for _, inner := range li.obs {
		ir := h.NewRec(fmt.Sprintf("inner%d", len(set.all())))
		set.add(ir)
		inner.Subscribe(h.Observer[int](ir))
	}
	curLate = nil
}

// shuffles enumerates all interleavings of the scripts that keep each script's order.
func shuffles(words [][]h.Ev) [][]arrival {
	var out [][]arrival
	pos := make([]int, len(words))
	var cur []arrival
	var rec func()
	rec = func() {
		done := true
		for i, w := range words {
			if pos[i] < len(w) {
				done = false
				cur = append(cur, arrival{i, w[pos[i]]})
				pos[i]++
				rec()
				pos[i]--
				cur = cur[:len(cur)-1]
			}
		}
		if done {
			out = append(out, append([]arrival{}, cur...))
		}
	}
	rec()
	return out
}

func runModel(op msOp, as []arrival) *msModel {
	m := op.model()
	for _, a := range as {
		m.feed(a)
	}
	return m
}

func modelOutcome(m *msModel) string {
	s := h.Word(m.out)
	for _, in := range m.inner {
		s += " | " + h.Word(in)
	}
	return s
}

func implOutcome(set *recSet) string {
	var p []string
	for _, r := range set.all() {
		p = append(p, r.Trace())
	}
	return strings.Join(p, " | ")
}

func c05SeqCase(op msOp, words [][]h.Ev, as []arrival) fw.Case {
	return fw.Case{Name: arrString(as), Opts: vrt.Options{Horizon: 50000}, Make: func() fw.Instance {
		set := &recSet{}
		out := h.NewRec("out")
		set.add(out)
		srcs := make([]*h.Src, op.k)
		var escaped string
		body := func() {
			obs := make([]ro.Observable[int], op.k)
			push := make([]*h.Push[int], op.k)
			for i := range obs {
				srcs[i] = h.NewSrc(fmt.Sprintf("%c", 'a'+i))
				obs[i], push[i] = h.Pushed[int](srcs[i], h.Unsafe)
			}
			curLate = nil
			// Subscribe runs on its own thread (Concat and FlatMap wait inside Subscribe); every
			// notification is processed to quiescence before the next one is issued
			vrt.GoNamed("subscribe", func() {
				guard(&escaped, "Subscribe", func() { op.build(obs, set, out) })
			})
			vrt.Settle()
			guard(&escaped, "Next", func() {
				for _, a := range as {
					push[a.src].Emit(a.e)
					vrt.Settle()
				}
				flushLate(set)
			})
		}
		return fw.Instance{Body: body, Outcome: func() string { return implOutcome(set) }, Check: func(r *vrt.Result) []fw.Violation {
			var res []fw.Violation
			m := runModel(op, as)
			where := fmt.Sprintf("%s, arrival order [%s]", op.name, arrString(as))
			if escaped != "" {
				res = append(res, fw.V("arrival/"+op.name+"/panic/escaped", where+": "+escaped))
			}
			if bl := blockedExcept(r, "subscribe"); bl != "" || r.HorizonHit {
				res = append(res, fw.V("arrival/"+op.name+"/blocked/"+bl, where+": the run did not finish: "+bl))
				return res
			}
			if got, want := implOutcome(set), modelOutcome(m); !sameOutcome(set, m) {
				res = append(res, fw.V("arrival/"+op.name+"/output-vs-definition/"+outcomeClass(set, m), fmt.Sprintf("%s: delivered [%s]; the definition gives [%s]", where, got, want)))
			}
			for i, s := range srcs {
				_, _, live, _ := s.Get()
				want := 0
				if m.sub[i] {
					want = 1
				}
				if live != want {
					cls := "source-not-released"
					if live < want {
						cls = "source-released-early"
					}
					res = append(res, fw.V("arrival/"+op.name+"/source-release/"+cls, fmt.Sprintf("%s: source %c live=%d, the definition says %d", where, 'a'+i, live, want)))
					break
				}
			}
			return res
		}}
	}}
}

// c05ReentrantCase: the arrival order as, pushed from one goroutine, but arrival #at+1 is issued from INSIDE the
// observer callback of the first notification the operator delivers while it processes arrival #at (a feedback
// loop: the consumer reacts to an output by feeding a source). The arrival order is still as, so the
// definition's output for as is expected. Operators whose destination is locked while it is being called
// cannot be re-entered (the nested push blocks on that lock): such runs, and runs where arrival #at delivers
// nothing, decide nothing and are skipped.
func c05ReentrantCase(op msOp, as []arrival, at int) fw.Case {
	return fw.Case{Name: fmt.Sprintf("reentrant@%d:%s", at, arrString(as)), Opts: vrt.Options{Horizon: 50000}, Make: func() fw.Instance {
		set := &recSet{}
		out := h.NewRec("out")
		set.add(out)
		var escaped string
		nested := false
		body := func() {
			srcs := make([]*h.Src, op.k)
			obs := make([]ro.Observable[int], op.k)
			push := make([]*h.Push[int], op.k)
			for i := range obs {
				srcs[i] = h.NewSrc(fmt.Sprintf("%c", 'a'+i))
				obs[i], push[i] = h.Pushed[int](srcs[i], h.Unsafe)
			}
			curLate = nil
			vrt.GoNamed("subscribe", func() {
				guard(&escaped, "Subscribe", func() { op.build(obs, set, out) })
			})
			vrt.Settle()
			armed := false
			out.Hook = func(r *h.Rec, idx int, e h.Ev) {
				if armed && !nested {
					nested = true
					push[as[at+1].src].Emit(as[at+1].e)
				}
			}
			guard(&escaped, "Next", func() {
				for i := 0; i < len(as); i++ {
					if i == at+1 && nested {
						continue
					}
					armed = i == at
					push[as[i].src].Emit(as[i].e)
					armed = false
					vrt.Settle()
				}
			})
		}
		return fw.Instance{Body: body, Outcome: func() string { return implOutcome(set) }, Check: func(r *vrt.Result) []fw.Violation {
			if !nested || len(r.Blocked) > 0 || r.HorizonHit {
				return nil
			}
			where := fmt.Sprintf("%s, arrival order [%s] with arrival #%d issued from inside the callback of the output of arrival #%d", op.name, arrString(as), at+1, at)
			if escaped != "" {
				return []fw.Violation{fw.V("reentrant/"+op.name+"/panic/escaped", where+": "+escaped)}
			}
			m := runModel(op, as)
			if !sameOutcome(set, m) {
				return []fw.Violation{fw.V("reentrant/"+op.name+"/output-vs-definition/"+outcomeClass(set, m), fmt.Sprintf("%s: delivered [%s]; the definition gives [%s]", where, implOutcome(set), modelOutcome(m)))}
			}
			return nil
		}}
	}}
}

func sameOutcome(set *recSet, m *msModel) bool {
	recs := set.all()
	if len(recs) != 1+len(m.inner) {
		return false
	}
	if !h.SameTrace(recs[0].Events(), m.out) {
		return false
	}
	for i, in := range m.inner {
		if !h.SameTrace(recs[1+i].Events(), in) {
			return false
		}
	}
	return true
}

func outcomeClass(set *recSet, m *msModel) string {
	recs := set.all()
	if !h.SameTrace(recs[0].Events(), m.out) {
		return "outer-" + diffClass(recs[0].Events(), m.out)
	}
	if len(recs) != 1+len(m.inner) {
		return "inner-count"
	}
	for i, in := range m.inner {
		if !h.SameTrace(recs[1+i].Events(), in) {
			return "inner-" + diffClass(recs[1+i].Events(), in)
		}
	}
	return "same"
}

func c05Scripts(vals []interface{}, maxVals int) [][]h.Ev {
	return h.Legal(vals, maxVals, []h.Kind{h.C, h.E}, true)
}

func c05ConcCase(op msOp, words [][]h.Ev, bound int) fw.Case {
	return c05ConcCaseOpt(op, words, bound, false)
}

// c05ConcCaseOpt: with racing set, the producers do not wait for Subscribe to finish: each one starts as
// soon as its own source has been subscribed (or the Subscribe call has gone quiet), so sources terminate
// while the operator is still subscribing the others; at the end the output is unsubscribed and every
// source must have been released.
func c05ConcCaseOpt(op msOp, words [][]h.Ev, bound int, racing bool) fw.Case {
	var names []string
	for _, w := range words {
		names = append(names, "["+h.Word(w)+"]")
	}
	// the set of outcomes the definition allows: one per arrival order
	allowed := map[string]bool{}
	for _, as := range shuffles(words) {
		allowed[modelOutcome(runModel(op, as))] = true
	}
	nm := strings.Join(names, " ")
	if racing {
		nm = "producers-racing-subscribe: " + nm
	}
	return fw.Case{Name: nm, Bound: bound, Sample: true, Make: func() fw.Instance {
		set := &recSet{}
		out := h.NewRec("out")
		set.add(out)
		var escaped string
		srcs := make([]*h.Src, op.k)
		var subscription ro.Subscription
		released := true
		var subGate gate
		body := func() {
			obs := make([]ro.Observable[int], op.k)
			push := make([]*h.Push[int], op.k)
			for i := range obs {
				srcs[i] = h.NewSrc(fmt.Sprintf("%c", 'a'+i))
				obs[i], push[i] = h.Pushed[int](srcs[i], h.Unsafe)
			}
			curLate = nil
			vrt.GoNamed("subscribe", func() {
				guard(&escaped, "Subscribe", func() { subGate.setSub(op.build(obs, set, out)) })
			})
			if !racing {
				vrt.Settle()
			}
			for i := range words {
				i := i
				if len(words[i]) == 0 {
					continue
				}
				vrt.GoNamed(fmt.Sprintf("producer-%c", 'a'+i), func() {
					if racing {
						vrt.Point(vrt.OpUser, 0, func() bool { n, _, _, _ := srcs[i].Get(); return n > 0 || subGate.isOver() })
					}
					guard(&escaped, "Next", func() { play(push[i], words[i]) })
				})
			}
			if racing {
				vrt.Settle()
				subGate.over() // sources the operator has not subscribed by now lose their notifications, as in the other variant
				vrt.Settle()
				if subscription = subGate.getSub(); subscription != nil {
					guard(&escaped, "Unsubscribe", func() { subscription.Unsubscribe() })
					vrt.Settle()
					for _, sc := range srcs {
						if _, _, live, _ := sc.Get(); live != 0 {
							released = false
						}
					}
				}
			}
		}
		return fw.Instance{Body: body, Outcome: func() string { return implOutcome(set) }, Recorders: set.all, Nontrivial: func(r *vrt.Result) bool { return r.Switches > 2 }, Check: func(r *vrt.Result) []fw.Violation {
			var res []fw.Violation
			where := fmt.Sprintf("%s with concurrent sources %s", op.name, nm)
			if escaped != "" {
				res = append(res, fw.V("concurrent/"+op.name+"/panic/escaped", where+": "+escaped))
			}
			if r.Crash != nil {
				res = append(res, fw.V("concurrent/"+op.name+"/panic/goroutine", where+": "+r.Crash.Value))
			}
			if bl := blockedExcept(r, "subscribe"); bl != "" {
				res = append(res, fw.V("concurrent/"+op.name+"/deadlock/"+bl, where+": "+bl))
				return res
			}
			got := implOutcome(set)
			if !allowed[normOutcome(got)] {
				var al []string
				for a := range allowed {
					al = append(al, "["+a+"]")
				}
				res = append(res, fw.V("concurrent/"+op.name+"/output-for-no-arrival-order/"+concClass(got, allowed), fmt.Sprintf("%s: delivered [%s], which the definition assigns to no arrival order; allowed: %s", where, got, strings.Join(al, " "))))
			}
			if !released {
				var st []string
				for _, sc := range srcs {
					n, t, live, _ := sc.Get()
					st = append(st, fmt.Sprintf("%s: subscribed %d, released %d, live %d", sc.Name, n, t, live))
				}
				res = append(res, fw.V("concurrent/"+op.name+"/source-not-released-after-unsubscribe/live", fmt.Sprintf("%s: the output was unsubscribed after everything had quiesced, yet a source is still subscribed (%s)", where, strings.Join(st, "; "))))
			}
			return res
		}}
	}}
}

// gate carries the Subscription out of the subscribe thread and the "Subscribe has gone quiet" flag.
type gate struct {
	sub  ro.Subscription
	done bool
}

//go:norace
func (g *gate) setSub(s ro.Subscription) { g.sub = s }

//go:norace
func (g *gate) getSub() ro.Subscription { return g.sub }

//go:norace
func (g *gate) over() { g.done = true }

//go:norace
func (g *gate) isOver() bool { return g.done }

func normOutcome(s string) string { return s }

// concClass names how a concurrent outcome departs from every outcome the definition allows:
// terminal-wrong (the values of some allowed outcome, another terminal), value-lost (fewer values than
// any allowed outcome with the same terminal), value-duplicated (some value more often than any allowed
// outcome has it), order (a permutation of an allowed outcome), other.
func concClass(got string, allowed map[string]bool) string {
	split := func(s string) (vals []string, term string) {
		for _, part := range strings.Split(s, " | ") {
			for _, tok := range tokens(part) {
				if tok == "C" || tok == "E" {
					term += tok
				} else {
					vals = append(vals, tok)
				}
			}
			vals = append(vals, "|")
		}
		return
	}
	count := func(vals []string) map[string]int {
		m := map[string]int{}
		for _, v := range vals {
			m[v]++
		}
		return m
	}
	gv, gt := split(got)
	gc := count(gv)
	sameVals, lost, dup, perm := false, false, true, false
	for a := range allowed {
		av, at := split(a)
		ac := count(av)
		if strings.Join(av, " ") == strings.Join(gv, " ") && at != gt {
			sameVals = true
		}
		sub, super := true, true
		for k, n := range gc {
			if ac[k] < n {
				sub = false
			}
		}
		for k, n := range ac {
			if gc[k] < n {
				super = false
			}
		}
		if sub && !super {
			lost = true
		}
		if sub {
			dup = false
		}
		if sub && super && strings.Join(av, " ") != strings.Join(gv, " ") {
			perm = true
		}
	}
	switch {
	case sameVals:
		return "terminal-wrong"
	case dup:
		return "value-duplicated"
	case perm:
		return "order"
	case lost:
		return "value-lost"
	}
	return "other"
}

// tokens splits a rendered trace into notifications (values may contain spaces inside brackets/braces).
func tokens(s string) []string {
	var out []string
	depth := 0
	cur := ""
	for _, r := range s {
		switch {
		case r == '[' || r == '{':
			depth++
			cur += string(r)
		case r == ']' || r == '}':
			depth--
			cur += string(r)
		case r == ' ' && depth == 0:
			if cur != "" {
				out = append(out, cur)
			}
			cur = ""
		default:
			cur += string(r)
		}
	}
	if cur != "" {
		out = append(out, cur)
	}
	return out
}

func init() {
	Registry["C05"] = func(tier string) []fw.Scenario {
		maxVals, concTotal, bound := 2, 4, 2
		if tier == "thorough" {
			maxVals, concTotal, bound = 3, 5, 3
		}
		alph := [][]interface{}{{1, 2}, {7, 8}, {5}}
		var scns []fw.Scenario
		for _, op := range c05Ops() {
			op := op
			// sequential: every tuple of scripts, every shuffle
			var tuples [][][]h.Ev
			var build func(i int, cur [][]h.Ev)
			build = func(i int, cur [][]h.Ev) {
				if i == op.k {
					tuples = append(tuples, append([][]h.Ev{}, cur...))
					return
				}
				al := alph[i]
				if op.k == 3 {
					al = al[:1] // one letter per source keeps the 3-source tuples enumerable at full length
				}
				mv := maxVals
				if strings.HasPrefix(op.name, "GroupBy(v%3)") {
					al, mv = []interface{}{1, 2, 3}, maxVals+2 // three keys, scripts long enough to come back to a key twice
				}
				for _, w := range c05Scripts(al, mv) {
					build(i+1, append(cur, w))
				}
			}
			build(0, nil)
			for ti := 0; ti < len(tuples); ti += 40 {
				chunk := tuples[ti:min(ti+40, len(tuples))]
				scns = append(scns, fw.Scenario{ID: fmt.Sprintf("C05/seq/%s/%d", op.name, ti), Group: op.name, Run: func(c *fw.Ctx) {
					for _, words := range chunk {
						for _, as := range shuffles(words) {
							c.Explore(c05SeqCase(op, words, as))
							if !op.late && op.k >= 2 {
								for at := 0; at+1 < len(as); at++ {
									if as[at].src != as[at+1].src {
										c.Explore(c05ReentrantCase(op, as, at))
									}
								}
							}
						}
					}
				}})
			}
			if op.late || op.k == 1 {
				continue
			}
			// concurrent: one thread per source
			var conc [][][]h.Ev
			for _, words := range tuples {
				total := 0
				nonEmpty := 0
				for _, w := range words {
					total += len(w)
					if len(w) > 0 {
						nonEmpty++
					}
				}
				if total <= concTotal && nonEmpty >= 2 {
					conc = append(conc, words)
				}
			}
			for ti := 0; ti < len(conc); ti += 10 {
				chunk := conc[ti:min(ti+10, len(conc))]
				b := bound
				if op.k == 3 {
					b = bound - 1
				}
				scns = append(scns, fw.Scenario{ID: fmt.Sprintf("C05/conc/%s/%d", op.name, ti), Group: op.name, Run: func(c *fw.Ctx) {
					for _, words := range chunk {
						c.Explore(c05ConcCase(op, words, b))
						// racing variant: short tuples in which some source terminates, one deviation less
						total, term := 0, false
						for _, w := range words {
							total += len(w)
							if len(w) > 0 && w[len(w)-1].K != h.N {
								term = true
							}
						}
						if total <= 3 && term && b > 1 {
							c.Explore(c05ConcCaseOpt(op, words, b-1, true))
						}
					}
				}})
			}
		}
		scns = append(scns, c05Arity(tier)...)
		return scns
	}
}

func min(a, b int) int {
	if a < b {
		return a
	}
	return b
}

// blockedExcept lists blocked threads other than the named one (a Subscribe call that legitimately
// waits inside a blocking operator while its source stays open).
func blockedExcept(r *vrt.Result, name string) string {
	var s []string
	for _, b := range r.Blocked {
		if b.Name != name {
			s = append(s, fmt.Sprintf("%s(%s)", b.Name, b.Op))
		}
	}
	return strings.Join(s, ",")
}
