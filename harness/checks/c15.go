package checks

import (
	"context"
	"fmt"
	"strings"

	"github.com/samber/ro"
	"verif.local/harness/fw"
	"verif.local/harness/h"
	"verif.local/vrt"
)

// C15 - re-subscribing operators run attempts in sequence, the right number of times.
//
// The source is an Attempts source: its n-th subscription plays the n-th outcome (a short script ending
// in completion or error), synchronously or from a spawned thread. All outcome sequences up to a
// bounded number of attempts are enumerated against a reference model of each operator.

type c15Op struct {
	name  string
	build func(src ro.Observable[int], env *c15Env) ro.Observable[int]
	// model returns the expected trace and the expected number of subscriptions to the source
	model func(outcomes [][]h.Ev, env *c15Env) ([]h.Ev, int)
	// needsEnd: the operator never stops by itself unless some attempt ends in this kind
	timed bool
}

type c15Env struct {
	truth []bool // condition values by invocation index (last one repeats)
	calls int
}

//go:norace
func (e *c15Env) cond() bool {
	i := e.calls
	e.calls++
	if i >= len(e.truth) {
		i = len(e.truth) - 1
	}
	return e.truth[i]
}

func truthAt(t []bool, i int) bool {
	if i >= len(t) {
		i = len(t) - 1
	}
	return t[i]
}

func outcomeAt(o [][]h.Ev, i int) []h.Ev {
	if i >= len(o) {
		i = len(o) - 1
	}
	return o[i]
}

func retryModel(maxRetries uint64, reset bool) func(outcomes [][]h.Ev, env *c15Env) ([]h.Ev, int) {
	return func(outcomes [][]h.Ev, env *c15Env) ([]h.Ev, int) {
		var out []h.Ev
		retries := uint64(0)
		for a := 0; a < 50; a++ {
			vals, end := splitEv(outcomeAt(outcomes, a))
			for _, v := range vals {
				if reset {
					retries = 0
				}
				out = append(out, v)
			}
			if end.K == h.C {
				return append(out, h.Co()), a + 1
			}
			retries++
			if maxRetries == 0 || retries <= maxRetries {
				continue
			}
			return append(out, *end), a + 1
		}
		return out, 50
	}
}

func c15Ops() []c15Op {
	var ops []c15Op
	ops = append(ops, c15Op{name: "Retry()", build: func(s ro.Observable[int], env *c15Env) ro.Observable[int] { return ro.Retry[int]()(s) }, model: retryModel(0, false)})
	for _, m := range []uint64{1, 2, 3} {
		for _, reset := range []bool{false, true} {
			for _, delay := range []bool{false, true} {
				m, reset, delay := m, reset, delay
				cfg := ro.RetryConfig{MaxRetries: m, ResetOnSuccess: reset}
				if delay {
					cfg.Delay = 2 * u
				}
				ops = append(ops, c15Op{name: fmt.Sprintf("RetryWithConfig(max=%d,reset=%v,delay=%v)", m, reset, delay), timed: delay,
					build: func(s ro.Observable[int], env *c15Env) ro.Observable[int] { return ro.RetryWithConfig[int](cfg)(s) },
					model: retryModel(m, reset)})
			}
		}
	}
	for _, n := range []int64{0, 1, 2, 3} {
		n := n
		ops = append(ops, c15Op{name: fmt.Sprintf("RepeatWith(%d)", n),
			build: func(s ro.Observable[int], env *c15Env) ro.Observable[int] { return ro.RepeatWith[int](n)(s) },
			model: func(outcomes [][]h.Ev, env *c15Env) ([]h.Ev, int) {
				var out []h.Ev
				if n == 0 {
					return []h.Ev{h.Co()}, 0
				}
				for a := 0; a < int(n); a++ {
					vals, end := splitEv(outcomeAt(outcomes, a))
					out = append(out, vals...)
					if end.K == h.E {
						return append(out, *end), a + 1
					}
				}
				return append(out, h.Co()), int(n)
			}})
	}
	// DoWhile / While with every truth sequence
	truths := [][]bool{{false}, {true, false}, {true, true, false}, {true, true, true, false}}
	for _, t := range truths {
		t := t
		tn := strings.ReplaceAll(strings.Trim(fmt.Sprint(t), "[]"), " ", ",")
		doModel := func(outcomes [][]h.Ev, env *c15Env) ([]h.Ev, int) {
			var out []h.Ev
			for a := 0; a < 50; a++ {
				vals, end := splitEv(outcomeAt(outcomes, a))
				out = append(out, vals...)
				if end.K == h.E {
					return append(out, *end), a + 1
				}
				if !truthAt(t, a) {
					return append(out, h.Co()), a + 1
				}
			}
			return out, 50
		}
		whileModel := func(outcomes [][]h.Ev, env *c15Env) ([]h.Ev, int) {
			var out []h.Ev
			for a := 0; a < 50; a++ {
				if !truthAt(t, a) {
					return append(out, h.Co()), a
				}
				vals, end := splitEv(outcomeAt(outcomes, a))
				out = append(out, vals...)
				if end.K == h.E {
					return append(out, *end), a + 1
				}
			}
			return out, 50
		}
		ops = append(ops,
			c15Op{name: "DoWhile(" + tn + ")", model: doModel, build: func(s ro.Observable[int], env *c15Env) ro.Observable[int] {
				env.truth = t
				return ro.DoWhile[int](env.cond)(s)
			}},
			c15Op{name: "DoWhileI(" + tn + ")", model: doModel, build: func(s ro.Observable[int], env *c15Env) ro.Observable[int] {
				return ro.DoWhileI[int](func(i int64) bool { return truthAt(t, int(i)) })(s)
			}},
			c15Op{name: "DoWhileWithContext(" + tn + ")", model: doModel, build: func(s ro.Observable[int], env *c15Env) ro.Observable[int] {
				env.truth = t
				return ro.DoWhileWithContext[int](func(ctx context.Context) (context.Context, bool) { return ctx, env.cond() })(s)
			}},
			c15Op{name: "While(" + tn + ")", model: whileModel, build: func(s ro.Observable[int], env *c15Env) ro.Observable[int] {
				env.truth = t
				return ro.While[int](env.cond)(s)
			}},
			c15Op{name: "WhileI(" + tn + ")", model: whileModel, build: func(s ro.Observable[int], env *c15Env) ro.Observable[int] {
				return ro.WhileI[int](func(i int64) bool { return truthAt(t, int(i)) })(s)
			}},
			c15Op{name: "WhileIWithContext(" + tn + ")", model: whileModel, build: func(s ro.Observable[int], env *c15Env) ro.Observable[int] {
				return ro.WhileIWithContext[int](func(ctx context.Context, i int64) (context.Context, bool) { return ctx, truthAt(t, int(i)) })(s)
			}},
		)
	}
	// the source itself is the fallback: Catch re-subscribes to it once; OnErrorResumeNextWith k times; Concat k times
	ops = append(ops, c15Op{name: "Catch(->source)", build: func(s ro.Observable[int], env *c15Env) ro.Observable[int] {
		return ro.Catch(func(error) ro.Observable[int] { return s })(s)
	}, model: func(outcomes [][]h.Ev, env *c15Env) ([]h.Ev, int) {
		vals, end := splitEv(outcomeAt(outcomes, 0))
		if end.K == h.C {
			return append(vals, *end), 1
		}
		v2, e2 := splitEv(outcomeAt(outcomes, 1))
		return append(append(vals, v2...), *e2), 2
	}})
	for k := 0; k <= 3; k++ {
		k := k
		ops = append(ops, c15Op{name: fmt.Sprintf("OnErrorResumeNextWith(source x%d)", k), build: func(s ro.Observable[int], env *c15Env) ro.Observable[int] {
			fb := make([]ro.Observable[int], k)
			for i := range fb {
				fb[i] = s
			}
			return ro.OnErrorResumeNextWith(fb...)(s)
		}, model: func(outcomes [][]h.Ev, env *c15Env) ([]h.Ev, int) {
			if k == 0 {
				return append([]h.Ev{}, outcomeAt(outcomes, 0)...), 1
			}
			var out []h.Ev
			var end *h.Ev
			for a := 0; a <= k; a++ {
				var vals []h.Ev
				vals, end = splitEv(outcomeAt(outcomes, a))
				out = append(out, vals...)
			}
			return append(out, *end), k + 1
		}})
		if k >= 1 {
			ops = append(ops, c15Op{name: fmt.Sprintf("Concat(source x%d)", k), build: func(s ro.Observable[int], env *c15Env) ro.Observable[int] {
				srcs := make([]ro.Observable[int], k)
				for i := range srcs {
					srcs[i] = s
				}
				return ro.Concat(srcs...)
			}, model: func(outcomes [][]h.Ev, env *c15Env) ([]h.Ev, int) {
				var out []h.Ev
				for a := 0; a < k; a++ {
					vals, end := splitEv(outcomeAt(outcomes, a))
					out = append(out, vals...)
					if end.K == h.E {
						return append(out, *end), a + 1
					}
				}
				return append(out, h.Co()), k
			}})
		}
	}
	return ops
}

func c15Case(op c15Op, outcomes [][]h.Ev, async bool, bound int) fw.Case {
	var names []string
	for _, o := range outcomes {
		names = append(names, "["+h.Word(o)+"]")
	}
	nm := strings.Join(names, "")
	if async {
		nm = "async:" + nm
	}
	return fw.Case{Name: nm, Bound: bound, Opts: vrt.Options{Horizon: 60000, MaxTime: int64(100 * u)}, Make: func() fw.Instance {
		rec := h.NewRec("out")
		src := h.NewSrc("attempts")
		env := &c15Env{}
		body := func() {
			s := h.Attempts[int](src, h.Unsafe, outcomes, async)
			sub(op.build(s, env), rec)
		}
		return fw.Instance{Body: body, Outcome: rec.Trace, Check: func(r *vrt.Result) []fw.Violation {
			var out []fw.Violation
			want, wantSubs := op.model(outcomes, &c15Env{})
			sig := "attempts/" + op.name
			where := fmt.Sprintf("%s over attempts %s", op.name, nm)
			if r.HorizonHit || len(r.Blocked) > 0 {
				out = append(out, fw.V(sig+"/does-not-finish/"+blockedSummary(r), fmt.Sprintf("%s: the run did not finish (%s); trace [%s]", where, blockedSummary(r), rec.Trace())))
				return out
			}
			if !h.SameTrace(rec.Events(), want) {
				out = append(out, fw.V(sig+"/trace-vs-definition/"+diffClass(rec.Events(), want), fmt.Sprintf("%s: delivered [%s]; the definition gives [%s]", where, rec.Trace(), h.Word(want))))
			}
			subs, tears, live, maxLive := src.Get()
			if subs != wantSubs {
				cls := "too-many"
				if subs < wantSubs {
					cls = "too-few"
				}
				out = append(out, fw.V(sig+"/attempt-count/"+cls, fmt.Sprintf("%s: the source was subscribed %d times, the definition says %d", where, subs, wantSubs)))
			}
			_ = maxLive
			if src.MaxOpen > 1 {
				out = append(out, fw.V(sig+"/attempts-overlap/open", fmt.Sprintf("%s: %d attempts were open (neither terminated nor unsubscribed) at the same time", where, src.MaxOpen)))
			}
			if tears != subs || live != 0 {
				out = append(out, fw.V(sig+"/attempt-not-released/teardown", fmt.Sprintf("%s: subscribed %d, released %d", where, subs, tears)))
			}
			return out
		}}
	}}
}

// c15Nested: a re-subscribing operator over another one. The outer operator subscribes the inner pipeline
// value several times; each of those subscriptions must behave like a subscription to a freshly built inner
// pipeline. Variant A reuses one inner value, variant B rebuilds it (Defer) for every outer attempt; both
// run over the same attempt outcomes and must agree on trace and on the number of source subscriptions.
type c15Inner struct {
	name string
	mk   func(s ro.Observable[int]) ro.Observable[int]
}

func c15Inners() []c15Inner {
	return []c15Inner{
		{"Concat(src,src)", func(s ro.Observable[int]) ro.Observable[int] { return ro.Concat(s, s) }},
		{"ConcatWith(src)", func(s ro.Observable[int]) ro.Observable[int] { return ro.ConcatWith(s)(s) }},
		{"Catch(->src)", func(s ro.Observable[int]) ro.Observable[int] {
			return ro.Catch(func(error) ro.Observable[int] { return s })(s)
		}},
		{"OnErrorResumeNextWith(src)", func(s ro.Observable[int]) ro.Observable[int] { return ro.OnErrorResumeNextWith(s)(s) }},
		{"RetryWithConfig(max=1)", func(s ro.Observable[int]) ro.Observable[int] {
			return ro.RetryWithConfig[int](ro.RetryConfig{MaxRetries: 1})(s)
		}},
		{"RepeatWith(2)", func(s ro.Observable[int]) ro.Observable[int] { return ro.RepeatWith[int](2)(s) }},
		{"DoWhileI(i<1)", func(s ro.Observable[int]) ro.Observable[int] {
			return ro.DoWhileI[int](func(i int64) bool { return i < 1 })(s)
		}},
		{"WhileI(i<2)", func(s ro.Observable[int]) ro.Observable[int] {
			return ro.WhileI[int](func(i int64) bool { return i < 2 })(s)
		}},
	}
}

func c15Nested(outerName string, outer func(ro.Observable[int]) ro.Observable[int], in c15Inner, outcomes [][]h.Ev) fw.Case {
	var names []string
	for _, o := range outcomes {
		names = append(names, "["+h.Word(o)+"]")
	}
	nm := strings.Join(names, "")
	return fw.Case{Name: nm, Opts: vrt.Options{Horizon: 60000, MaxTime: int64(100 * u)}, Make: func() fw.Instance {
		recA, recB := h.NewRec("reused"), h.NewRec("rebuilt")
		srcA, srcB := h.NewSrc("attempts"), h.NewSrc("attempts")
		body := func() {
			// each variant on a thread of its own: one of them may wait for ever inside Subscribe
			vrt.GoNamed("reused", func() {
				a := h.Attempts[int](srcA, h.Unsafe, outcomes, false)
				sub(outer(in.mk(a)), recA)
			})
			vrt.Settle()
			vrt.GoNamed("rebuilt", func() {
				b := h.Attempts[int](srcB, h.Unsafe, outcomes, false)
				sub(outer(ro.Defer(func() ro.Observable[int] { return in.mk(b) })), recB)
			})
		}
		return fw.Instance{Body: body, Outcome: recA.Trace, Check: func(r *vrt.Result) []fw.Violation {
			var out []fw.Violation
			sig := "nested/" + outerName + " over " + in.name
			where := fmt.Sprintf("%s over %s over attempts %s", outerName, in.name, nm)
			blockedA, blockedB := false, false
			for _, b := range r.Blocked {
				if b.Name == "reused" {
					blockedA = true
				}
				if b.Name == "rebuilt" {
					blockedB = true
				}
			}
			if r.HorizonHit || (blockedA && blockedB) {
				return nil // does not finish in either variant: reported for the single operators
			}
			if blockedA != blockedB {
				which := "reused"
				if blockedB {
					which = "rebuilt"
				}
				return []fw.Violation{fw.V(sig+"/does-not-finish-in-one-variant/"+which, fmt.Sprintf("%s: Subscribe never returns when the inner pipeline is %s (trace [%s]) but does when it is not (reused [%s], rebuilt [%s])", where, which, map[bool]string{true: recA.Trace(), false: recB.Trace()}[blockedA], recA.Trace(), recB.Trace()))}
			}
			sa, ta, la, _ := srcA.Get()
			sb, _, _, _ := srcB.Get()
			if !h.SameTrace(recA.Events(), recB.Events()) {
				out = append(out, fw.V(sig+"/inner-pipeline-remembers-previous-attempt/"+diffClass(recA.Events(), recB.Events()),
					fmt.Sprintf("%s: delivered [%s] (%d source subscriptions); with the inner pipeline rebuilt for every outer attempt: [%s] (%d)", where, recA.Trace(), sa, recB.Trace(), sb)))
			} else if sa != sb {
				cls := "too-many"
				if sa < sb {
					cls = "too-few"
				}
				out = append(out, fw.V(sig+"/attempt-count/"+cls, fmt.Sprintf("%s: the source was subscribed %d times; with the inner pipeline rebuilt for every outer attempt %d times", where, sa, sb)))
			}
			if srcA.MaxOpen > 1 {
				out = append(out, fw.V(sig+"/attempts-overlap/open", fmt.Sprintf("%s: %d attempts were open at the same time", where, srcA.MaxOpen)))
			}
			if ta != sa || la != 0 {
				out = append(out, fw.V(sig+"/attempt-not-released/teardown", fmt.Sprintf("%s: subscribed %d, released %d", where, sa, ta)))
			}
			return out
		}}
	}}
}

// c15Cancel: Retry stops as soon as the subscription context is cancelled (cancel inside the k-th attempt).
func c15Cancel(delay bool, k int) fw.Case {
	return fw.Case{Name: fmt.Sprintf("cancel-in-attempt-%d/delay=%v", k, delay), Opts: vrt.Options{Horizon: 60000, MaxTime: int64(100 * u)}, Make: func() fw.Instance {
		rec := h.NewRec("out")
		src := h.NewSrc("attempts")
		body := func() {
			ctx, cancel := context.WithCancel(context.Background())
			rec.Hook = func(r *h.Rec, idx int, e h.Ev) {
				if idx == k {
					cancel()
				}
			}
			cfg := ro.RetryConfig{MaxRetries: 5}
			if delay {
				cfg.Delay = 2 * u
			}
			s := h.Attempts[int](src, h.Unsafe, [][]h.Ev{wordE(1)}, false)
			ro.RetryWithConfig[int](cfg)(s).SubscribeWithContext(ctx, h.Observer[int](rec))
		}
		return fw.Instance{Body: body, Outcome: rec.Trace, Check: func(r *vrt.Result) []fw.Violation {
			var out []fw.Violation
			sig := "attempts/RetryWithConfig(cancel)"
			subs, _, _, _ := src.Get()
			evs := rec.Events()
			if subs != k+1 {
				out = append(out, fw.V(sig+"/attempt-after-cancel/count", fmt.Sprintf("context cancelled during attempt %d: the source was subscribed %d times in total", k+1, subs)))
			}
			if len(evs) == 0 || evs[len(evs)-1].K != h.E || evs[len(evs)-1].Err != context.Canceled {
				out = append(out, fw.V(sig+"/cancel-not-reported/terminal", fmt.Sprintf("context cancelled during attempt %d: trace [%s] does not end with the context error", k+1, rec.Trace())))
			}
			if len(r.Blocked) > 0 {
				out = append(out, fw.V(sig+"/does-not-finish/"+blockedSummary(r), blockedSummary(r)))
			}
			return out
		}}
	}}
}

// c15CancelSequential: cancelling the subscription context while an asynchronous attempt is running must not
// let a concatenating operator start the next attempt beside it (attempts stay strictly sequential; these
// operators do not react to the context at all, so the cancelled run equals the uncancelled one).
func c15CancelSequential(name string, build func(s ro.Observable[int]) ro.Observable[int], k int, bound int) fw.Case {
	return fw.Case{Name: fmt.Sprintf("cancel-at-delivery-%d", k), Bound: bound, Opts: vrt.Options{Horizon: 60000, MaxTime: int64(100 * u)}, Make: func() fw.Instance {
		rec, ref := h.NewRec("cancelled"), h.NewRec("not-cancelled")
		src, srcRef := h.NewSrc("attempts"), h.NewSrc("attempts")
		words := [][]h.Ev{wordC(1, 2), wordC(3), wordC(4)}
		body := func() {
			ctx, cancel := context.WithCancel(context.Background())
			rec.Hook = func(r *h.Rec, idx int, e h.Ev) {
				if idx == k {
					cancel()
				}
			}
			vrt.GoNamed("cancelled", func() {
				build(h.Attempts[int](src, h.Unsafe, words, true)).SubscribeWithContext(ctx, h.Observer[int](rec))
			})
			vrt.Settle()
			vrt.GoNamed("reference", func() {
				build(h.Attempts[int](srcRef, h.Unsafe, words, true)).SubscribeWithContext(context.Background(), h.Observer[int](ref))
			})
		}
		return fw.Instance{Body: body, Outcome: rec.Trace, Check: func(r *vrt.Result) []fw.Violation {
			var out []fw.Violation
			sig := "attempts/" + name + "(cancel)"
			where := fmt.Sprintf("%s over asynchronous attempts [1 2 C][3 C][4 C], context cancelled inside delivery #%d", name, k)
			if src.MaxOpen > 1 {
				out = append(out, fw.V(sig+"/attempts-overlap/open", fmt.Sprintf("%s: %d attempts were open at the same time (trace [%s])", where, src.MaxOpen, rec.Trace())))
			}
			if !h.SameTrace(rec.Events(), ref.Events()) {
				out = append(out, fw.V(sig+"/trace-differs-from-uncancelled-run/"+diffClass(rec.Events(), ref.Events()), fmt.Sprintf("%s: delivered [%s]; without cancellation [%s]", where, rec.Trace(), ref.Trace())))
			}
			return out
		}}
	}}
}

func init() {
	Registry["C15"] = func(tier string) []fw.Scenario {
		maxAttempts := 3
		if tier == "thorough" {
			maxAttempts = 4
		}
		alphabet := [][]h.Ev{wordC(), wordE(), wordC(1), wordE(1)}
		if tier == "thorough" {
			alphabet = append(alphabet, wordC(1, 2), wordE(1, 2))
		}
		// all outcome sequences of 1..maxAttempts attempts; the last outcome repeats if more are needed,
		// so sequences must end with a completing outcome for operators that retry without limit
		var seqs [][][]h.Ev
		var gen func(cur [][]h.Ev)
		gen = func(cur [][]h.Ev) {
			if len(cur) > 0 {
				seqs = append(seqs, append([][]h.Ev{}, cur...))
			}
			if len(cur) == maxAttempts {
				return
			}
			for _, a := range alphabet {
				gen(append(cur, a))
			}
		}
		gen(nil)
		var scns []fw.Scenario
		for _, op := range c15Ops() {
			op := op
			scns = append(scns, fw.Scenario{ID: "C15/" + op.name, Group: op.name, Run: func(c *fw.Ctx) {
				for _, s := range seqs {
					last := s[len(s)-1]
					lastCompletes := last[len(last)-1].K == h.C
					if strings.HasPrefix(op.name, "Retry") && !lastCompletes {
						// Retry() never gives up and RetryWithConfig(reset) restarts its budget on every value:
						// only sequences whose repeating last outcome completes are guaranteed to end
						if op.name == "Retry()" || strings.Contains(op.name, "reset=true") {
							continue
						}
					}
					c.Explore(c15Case(op, s, false, 0))
					if len(s) <= 3 {
						c.Explore(c15Case(op, s, true, 1))
					}
				}
			}})
		}
		outers := []struct {
			name string
			op   func(ro.Observable[int]) ro.Observable[int]
		}{
			{"RetryWithConfig(max=2)", ro.RetryWithConfig[int](ro.RetryConfig{MaxRetries: 2})},
			{"RepeatWith(2)", ro.RepeatWith[int](2)},
		}
		for _, ou := range outers {
			for _, in := range c15Inners() {
				ou, in := ou, in
				scns = append(scns, fw.Scenario{ID: "C15/nested/" + ou.name + " over " + in.name, Group: "nested", Run: func(c *fw.Ctx) {
					for _, s := range seqs {
						c.Explore(c15Nested(ou.name, ou.op, in, s))
					}
				}})
			}
		}
		for _, cc := range []struct {
			name  string
			build func(s ro.Observable[int]) ro.Observable[int]
		}{
			{"Concat(src,src,src)", func(s ro.Observable[int]) ro.Observable[int] { return ro.Concat(s, s, s) }},
			{"ConcatWith(src,src)", func(s ro.Observable[int]) ro.Observable[int] { return ro.ConcatWith(s, s)(s) }},
			{"FlatMap(->src)", func(s ro.Observable[int]) ro.Observable[int] {
				return ro.FlatMap(func(int) ro.Observable[int] { return s })(ro.Just(0, 1, 2))
			}},
			{"RepeatWith(3)", func(s ro.Observable[int]) ro.Observable[int] { return ro.RepeatWith[int](3)(s) }},
		} {
			cc := cc
			scns = append(scns, fw.Scenario{ID: "C15/cancel-sequential/" + cc.name, Group: "cancel", Run: func(c *fw.Ctx) {
				for k := 0; k < 4; k++ {
					c.Explore(c15CancelSequential(cc.name, cc.build, k, 1))
				}
			}})
		}
		scns = append(scns, fw.Scenario{ID: "C15/cancel", Group: "Retry", Run: func(c *fw.Ctx) {
			for _, d := range []bool{false, true} {
				for k := 0; k < 3; k++ {
					c.Explore(c15Cancel(d, k))
				}
			}
		}})
		return scns
	}
}
