package checks

import (
	"fmt"
	"strings"

	"github.com/samber/ro"
	"verif.local/harness/fw"
	"verif.local/harness/h"
	"verif.local/vrt"
)

// c14MultiTake1: every multi-source operator of C05's list (those that do not wait inside Subscribe) followed by
// Take(1), over hot sources, every arrival order: the observer gets the definition's output up to its first
// value and then a completion; from that instant every source must be released (without having to end or
// emit again), nothing may be left blocked or spinning, and later arrivals reach nobody.
func c14MultiTake1(op msOp, as []arrival, twice bool) fw.Case {
	nm := "take1:" + arrString(as)
	if twice {
		nm = "two-subscriptions-" + nm
	}
	return fw.Case{Name: nm, Opts: vrt.Options{Horizon: 50000}, Make: func() fw.Instance {
		set := &recSet{}
		out := h.NewRec("out")
		out2 := h.NewRec("out2")
		set.add(out)
		srcs := make([]*h.Src, op.k)
		var escaped string
		liveAtEnd := make([]int, op.k)
		endedAt := -1
		body := func() {
			obs := make([]ro.Observable[int], op.k)
			push := make([]*h.Push[int], op.k)
			for i := range obs {
				srcs[i] = h.NewSrc(fmt.Sprintf("%c", 'a'+i))
				obs[i], push[i] = h.Pushed[int](srcs[i], h.Unsafe)
			}
			curLate = nil
			takeOne = true
			alsoSub = nil
			if twice {
				alsoSub = out2 // the same observable value subscribed a second time (also through Take(1))
			}
			vrt.GoNamed("subscribe", func() {
				guard(&escaped, "Subscribe", func() { op.build(obs, set, out) })
			})
			vrt.Settle()
			takeOne, alsoSub = false, nil
			guard(&escaped, "Next", func() {
				for i, a := range as {
					push[a.src].Emit(a.e)
					vrt.Settle()
					if endedAt < 0 && hasTerminal(out.Events()) {
						endedAt = i
						for j, s := range srcs {
							_, _, liveAtEnd[j], _ = s.Get()
						}
					}
				}
			})
		}
		return fw.Instance{Body: body, Outcome: out.Trace, Check: func(r *vrt.Result) []fw.Violation {
			var res []fw.Violation
			where := fmt.Sprintf("%s | Take(1), arrival order [%s]", op.name, arrString(as))
			sig := "multi-take1/" + op.name
			if twice {
				where = fmt.Sprintf("%s | Take(1) subscribed twice, arrival order [%s]", op.name, arrString(as))
				sig = "multi-take1-twice/" + op.name
			}
			if escaped != "" {
				return []fw.Violation{fw.V(sig+"/panic/escaped", where+": "+escaped)}
			}
			if r.HorizonHit || len(r.Blocked) > 0 {
				return []fw.Violation{fw.V(sig+"/blocked/"+blockedSummary(r), where+": the run did not finish: "+blockedSummary(r))}
			}
			m := runModel(op, as)
			want := m.out
			ended := false
			for i, e := range m.out {
				if e.K == h.N {
					want = append(append([]h.Ev{}, m.out[:i+1]...), h.Co())
					ended = true
					break
				}
			}
			if !h.SameTrace(out.Events(), want) {
				res = append(res, fw.V(sig+"/output-vs-definition/"+diffClass(out.Events(), want), fmt.Sprintf("%s: delivered [%s]; the definition gives [%s]", where, out.Trace(), h.Word(want))))
				return res
			}
			if twice && !h.SameTrace(out2.Events(), want) {
				res = append(res, fw.V(sig+"/second-subscription-output-vs-definition/"+diffClass(out2.Events(), want), fmt.Sprintf("%s: the second subscription received [%s]; the definition gives [%s]", where, out2.Trace(), h.Word(want))))
				return res
			}
			if ended && endedAt >= 0 {
				for j, n := range liveAtEnd {
					if n != 0 {
						res = append(res, fw.V(sig+"/source-not-released-at-downstream-end/take", fmt.Sprintf("%s: right after Take(1) completed (arrival #%d) source %c still had %d live subscription(s)", where, endedAt, 'a'+j, n)))
						break
					}
				}
			}
			return res
		}}
	}}
}

func c14Multi(tier string) []fw.Scenario {
	maxVals := 1
	if tier == "thorough" {
		maxVals = 2
	}
	alph := [][]interface{}{{1, 2}, {7, 8}, {5}}
	var scns []fw.Scenario
	for _, op := range c05Ops() {
		op := op
		if op.late || op.k == 1 || strings.HasPrefix(op.name, "WindowWhen") ||
			strings.HasPrefix(op.name, "Concat") || strings.HasPrefix(op.name, "FlatMap") {
			continue // waits inside Subscribe: C14's own operator list (and its known findings) covers those
		}
		var tuples [][][]h.Ev
		var build func(i int, cur [][]h.Ev)
		build = func(i int, cur [][]h.Ev) {
			if i == op.k {
				tuples = append(tuples, append([][]h.Ev{}, cur...))
				return
			}
			for _, w := range c05Scripts(alph[i][:1], maxVals) {
				build(i+1, append(cur, w))
			}
		}
		build(0, nil)
		scns = append(scns, fw.Scenario{ID: "C14/multi-take1/" + op.name, Group: "multi-source", Run: func(c *fw.Ctx) {
			for _, words := range tuples {
				for _, as := range shuffles(words) {
					c.Explore(c14MultiTake1(op, as, false))
					c.Explore(c14MultiTake1(op, as, true))
				}
			}
		}})
	}
	return scns
}
