package checks

import (
	"fmt"
	"strings"

	"github.com/samber/ro"
	"verif.local/harness/cat"
	"verif.local/harness/fw"
	"verif.local/harness/h"
	"verif.local/vrt"
)

// C06 - Unsubscribe cuts delivery; IsClosed, Wait and Collect tell the truth.

// c06Cut: pushed source through a row; Unsubscribe after k notifications (outside / inside the k-th callback).
func c06Cut(row cat.Row, word []h.Ev, k int, inside bool) fw.Case {
	nm := fmt.Sprintf("cut@%d:%s", k, h.Word(word))
	if inside {
		nm = "in-callback-" + nm
	}
	return fw.Case{Name: nm, Opts: seqOpts(row), Make: func() fw.Instance {
		rec := h.NewRec("out")
		var viol []fw.Violation
		add := func(clause, cls, detail string) {
			viol = append(viol, fw.V("pushed/"+row.Name+"/"+clause+"/"+cls, nm+": "+detail))
		}
		body := func() {
			var l *cat.Live
			done := false
			lenAtCut := -1
			cut := func() {
				if done || l == nil || l.Sub == nil {
					return
				}
				done = true
				l.Sub.Unsubscribe()
			}
			if inside {
				rec.Hook = func(r *h.Rec, idx int, e h.Ev) {
					if idx == k {
						cut()
					}
				}
			}
			l = row.Start(cat.Setup{Kind: cat.SrcPushed, Rec: rec})
			for i, e := range word {
				if !inside && i == k {
					cut()
					lenAtCut = rec.Len()
				}
				l.Emit(e)
				if inside && done && lenAtCut < 0 {
					lenAtCut = rec.Len() // the callback in progress has finished now
				}
			}
			if !done {
				cut()
				lenAtCut = rec.Len()
			}
			if lenAtCut < 0 {
				lenAtCut = rec.Len()
			}
			if !l.Sub.IsClosed() {
				add("is-closed-after-unsubscribe", "false", "IsClosed() is false after Unsubscribe returned")
			}
			l.Sub.Unsubscribe()
			l.Sub.Unsubscribe()
			l.Emit(h.Nx(1))
			l.Emit(h.Co())
			if rec.Len() != lenAtCut {
				add("delivery-after-unsubscribe", lateClass(rec, lenAtCut), fmt.Sprintf("the observer had %d notifications when Unsubscribe returned and has [%s] now", lenAtCut, rec.Trace()))
			}
			l.Sub.Wait() // must return: the subscription is closed
			if g := h.GrammarError(rec.Events()); g != "" {
				add("grammar", grammarClass(rec.Events()), g)
			}
		}
		return fw.Instance{Body: body, Outcome: rec.Trace, Check: func(r *vrt.Result) []fw.Violation {
			out := viol
			if len(r.Blocked) > 0 {
				out = append(out, fw.V("pushed/"+row.Name+"/wait-never-returns/"+blockedSummary(r), nm+": blocked: "+blockedSummary(r)))
			}
			return out
		}}
	}}
}

func lateClass(rec *h.Rec, n int) string {
	evs := rec.Events()
	if n < len(evs) {
		return [...]string{"value", "error", "complete"}[evs[n].K]
	}
	return "none"
}

// ---- concurrent

type c06Prog struct {
	name  string
	build func(src ro.Observable[int]) ro.Observable[int]
	mode  h.Mode
}

func c06Progs() []c06Prog {
	return []c06Prog{
		{"safe-observable", func(s ro.Observable[int]) ro.Observable[int] { return s }, h.Safe},
		{"unsafe-observable", func(s ro.Observable[int]) ro.Observable[int] { return s }, h.Unsafe},
		{"eventually-safe-observable", func(s ro.Observable[int]) ro.Observable[int] { return s }, h.Eventually},
		{"Map", func(s ro.Observable[int]) ro.Observable[int] { return ro.Map(func(v int) int { return v })(s) }, h.Unsafe},
		{"Serialize|Scan", func(s ro.Observable[int]) ro.Observable[int] {
			return ro.Scan(func(a, v int) int { return v }, 0)(ro.Serialize[int]()(s))
		}, h.Unsafe},
		{"Merge", func(s ro.Observable[int]) ro.Observable[int] { return ro.Merge(s, ro.Empty[int]()) }, h.Unsafe},
		{"Share", func(s ro.Observable[int]) ro.Observable[int] { return ro.Share[int]()(s) }, h.Unsafe},
		{"TakeLast(2)", func(s ro.Observable[int]) ro.Observable[int] { return ro.TakeLast[int](2)(s) }, h.Unsafe},
		{"ObserveOn(1)", func(s ro.Observable[int]) ro.Observable[int] { return ro.ObserveOn[int](1)(s) }, h.Unsafe},
		// time-driven operators with queues and timers of their own (zero delay: the timers are due at once)
		{"Delay(0)", func(s ro.Observable[int]) ro.Observable[int] { return ro.Delay[int](0)(s) }, h.Unsafe},
	}
}

type c06Marks struct {
	pushCall         []uint64 // tick at which push #i was issued
	unsubRet         []uint64
	waitRet          []uint64
	closedAtWaitRet  []bool
	closedAfterUnsub []bool
}

//go:norace
func (m *c06Marks) push(t uint64) { m.pushCall = append(m.pushCall, t) }

//go:norace
func (m *c06Marks) unsub(t uint64, closed bool) {
	m.unsubRet = append(m.unsubRet, t)
	m.closedAfterUnsub = append(m.closedAfterUnsub, closed)
}

//go:norace
func (m *c06Marks) wait(t uint64, closed bool) {
	m.waitRet = append(m.waitRet, t)
	m.closedAtWaitRet = append(m.closedAtWaitRet, closed)
}

func c06Concurrent(tier string) []fw.Scenario {
	bound := 2
	if tier == "thorough" {
		bound = 3
	}
	type shape struct {
		word   []h.Ev
		nUnsub int
		nWait  int
		name   string
		word2  []h.Ev // a second producer (destinations that serialize their producers only)
	}
	shapes := []shape{
		{ints(1, 2, 3), 1, 1, "3values/1unsub/1wait", nil},
		{ints(1, 2), 2, 1, "2values/2unsub/1wait", nil},
		{ints(1, 2), 1, 2, "2values/1unsub/2wait", nil},
		{wordC(1, 2), 0, 1, "self-complete/1wait", nil},
		{wordE(1), 0, 2, "self-error/2wait", nil},
		{wordC(1), 1, 1, "self-complete/1unsub/1wait", nil},
		{wordC(1), 0, 1, "two-producers-both-terminate/1wait", wordE()},
		{wordE(1), 0, 1, "two-producers-error-and-complete/1wait", wordC()},
	}
	var scns []fw.Scenario
	for _, p := range c06Progs() {
		p := p
		for _, sh := range shapes {
			sh := sh
			b := bound
			if sh.nUnsub+sh.nWait > 2 || p.name == "ObserveOn(1)" {
				b = bound - 1
			}
			if sh.word2 != nil && p.mode == h.Unsafe && p.name != "Serialize|Scan" {
				continue // two goroutines may only call a destination that serializes them
			}
			scns = append(scns, fw.Scenario{ID: "C06/conc/" + p.name + "/" + sh.name, Group: p.name, Run: func(c *fw.Ctx) {
				c.Explore(fw.Case{Name: sh.name, Bound: b, Sample: true, Opts: vrt.Options{DelayBounded: p.name == "ObserveOn(1)"}, Make: func() fw.Instance {
					rec := h.NewRec("out")
					rec.YieldIn = true
					marks := &c06Marks{}
					var sub0 ro.Subscription
					body := func() {
						src := h.NewSrc("src")
						o, push := h.Pushed[int](src, p.mode)
						sub0 = p.build(o).Subscribe(h.Observer[int](rec))
						vrt.GoNamed("producer", func() {
							for _, e := range sh.word {
								marks.push(vrt.Tick())
								push.Emit(e)
							}
						})
						if sh.word2 != nil {
							vrt.GoNamed("producer2", func() { play(push, sh.word2) })
						}
						for i := 0; i < sh.nUnsub; i++ {
							vrt.GoNamed("unsubscriber", func() {
								sub0.Unsubscribe()
								closed := sub0.IsClosed()
								marks.unsub(vrt.Tick(), closed)
							})
						}
						for i := 0; i < sh.nWait; i++ {
							vrt.GoNamed("waiter", func() {
								sub0.Wait()
								closed := sub0.IsClosed()
								marks.wait(vrt.Tick(), closed)
							})
						}
					}
					return fw.Instance{Body: body, Outcome: rec.Trace, Nontrivial: func(r *vrt.Result) bool { return r.Switches > 2 }, Check: func(r *vrt.Result) []fw.Violation {
						var out []fw.Violation
						sig := "concurrent/" + p.name
						where := p.name + " " + sh.name
						selfEnds := sh.word[len(sh.word)-1].K != h.N
						if r.Crash != nil {
							out = append(out, fw.V(sig+"/goroutine-top-panic/"+r.Crash.Name, where+": a panic reached the top of goroutine "+r.Crash.Name+": "+r.Crash.Value))
						}
						// every Wait returns once the subscription is closed
						if sh.nUnsub > 0 || selfEnds {
							for _, b := range r.Blocked {
								if b.Name == "waiter" {
									out = append(out, fw.V(sig+"/wait-never-returns/waiter", where+": a Wait call never returned although the subscription was closed"))
									break
								}
								if b.Name == "unsubscriber" || b.Name == "producer" {
									out = append(out, fw.V(sig+"/deadlock/"+b.Name, where+": "+blockedSummary(r)))
									break
								}
							}
						}
						for i, c := range marks.closedAfterUnsub {
							if !c {
								out = append(out, fw.V(sig+"/is-closed-after-unsubscribe/false", fmt.Sprintf("%s: IsClosed() was false right after Unsubscribe #%d returned", where, i)))
								break
							}
						}
						for i, c := range marks.closedAtWaitRet {
							if !c {
								out = append(out, fw.V(sig+"/wait-returned-before-closed/open", fmt.Sprintf("%s: Wait #%d returned while the subscription was still open", where, i)))
								break
							}
						}
						// (a) no callback belongs to an emission issued after some Unsubscribe had returned
						if len(marks.unsubRet) > 0 {
							first := marks.unsubRet[0]
							for _, t := range marks.unsubRet {
								if t < first {
									first = t
								}
							}
							for _, en := range rec.Log {
								if en.K != h.N {
									continue
								}
								idx := en.V.(int) - 1
								if idx >= 0 && idx < len(marks.pushCall) && marks.pushCall[idx] > first {
									out = append(out, fw.V(sig+"/delivery-after-unsubscribe/value", fmt.Sprintf("%s: value %v was emitted after an Unsubscribe call had returned and was still delivered (trace %s)", where, en.V, rec.Trace())))
									break
								}
							}
						}
						// (c) self-termination: Wait returns after the terminal callback has returned
						if selfEnds && sh.nUnsub == 0 {
							var termOut uint64
							for _, en := range rec.Log {
								if en.K != h.N && termOut == 0 {
									termOut = en.Out
								}
							}
							for i, t := range marks.waitRet {
								if termOut == 0 || t < termOut {
									out = append(out, fw.V(sig+"/wait-returned-before-terminal-callback-finished/early", fmt.Sprintf("%s: Wait #%d returned at logical time %d, the terminal callback finished at %d (trace %s)", where, i, t, termOut, rec.Trace())))
									break
								}
							}
						}
						if g := h.GrammarError(rec.Events()); g != "" {
							out = append(out, fw.V(sig+"/grammar/"+grammarClass(rec.Events()), where+": "+g))
						}
						if rec.MaxInside > 1 && p.mode != h.Unsafe {
							out = append(out, fw.V(sig+"/overlap/observer", where+": "+rec.Overlap))
						}
						return out
					}}
				}})
			}})
		}
	}
	// Collect against a pushed source, on its own thread
	for _, p := range c06Progs() {
		p := p
		for _, w := range [][]h.Ev{wordC(1, 2), wordE(1), wordC(), wordC(1, 2, 3)} {
			w := w
			for _, racing := range []bool{false, true} {
				racing := racing
				nmC := "collect:" + h.Word(w)
				idC := "C06/collect/" + p.name + "/" + h.Word(w)
				if racing {
					// the producer starts as soon as the source has been subscribed: its terminal can be in
					// flight while Collect is between Subscribe and Wait
					nmC = "collect, producer racing Subscribe:" + h.Word(w)
					idC += "/racing"
				}
				scns = append(scns, fw.Scenario{ID: idC, Group: "Collect", Run: func(c *fw.Ctx) {
					b := bound - 1
					if racing {
						b = bound // Collect preempted before its check, the producer preempted inside its terminal
					}
					c.Explore(fw.Case{Name: nmC, Bound: b, Make: func() fw.Instance {
						tap := h.NewRec("tap")
						var got []int
						var gotErr error
						returned := false
						body := func() {
							src := h.NewSrc("src")
							o, push := h.Pushed[int](src, p.mode)
							piped := ro.TapWithContext(
								func(ctx ctxT, v int) { tapAdd(tap, h.Nx(v)) },
								func(ctx ctxT, err error) { tapAdd(tap, h.Er(err)) },
								func(ctx ctxT) { tapAdd(tap, h.Co()) },
							)(p.build(o))
							vrt.GoNamed("collector", func() {
								got, gotErr = ro.Collect(piped)
								returned = true
							})
							if !racing {
								vrt.Settle()
							}
							vrt.GoNamed("producer", func() {
								vrt.Point(vrt.OpUser, 0, func() bool { n, _, _, _ := src.Get(); return n > 0 })
								play(push, w)
							})
						}
						return fw.Instance{Body: body, Outcome: func() string { return fmt.Sprint(got, gotErr) }, Check: func(r *vrt.Result) []fw.Violation {
							var out []fw.Violation
							sig := "concurrent/Collect(" + p.name + ")"
							if !returned {
								return []fw.Violation{fw.V(sig+"/collect-never-returns/"+blockedSummary(r), "source ["+h.Word(w)+"]: Collect did not return: "+blockedSummary(r))}
							}
							var want []int
							var wantErr error
							for _, e := range tap.Events() {
								switch e.K {
								case h.N:
									want = append(want, e.V.(int))
								case h.E:
									wantErr = e.Err
								}
							}
							if fmt.Sprint(got) != fmt.Sprint(want) && !(len(got) == 0 && len(want) == 0) {
								out = append(out, fw.V(sig+"/collect-values/mismatch", fmt.Sprintf("source [%s]: Collect returned %v, the stream delivered %v", h.Word(w), got, want)))
							}
							if (gotErr == nil) != (wantErr == nil) {
								out = append(out, fw.V(sig+"/collect-error/mismatch", fmt.Sprintf("source [%s]: Collect returned error %v, the stream ended with %v", h.Word(w), gotErr, wantErr)))
							}
							return out
						}}
					}})
				}})
			}
		}
	}
	return scns
}

func init() {
	Registry["C06"] = func(tier string) []fw.Scenario {
		L, LP := 3, 2
		if tier == "thorough" {
			L, LP = 6, 4
		}
		rows, pairs := rowsAndPairs()
		var scns []fw.Scenario
		addRow := func(row cat.Row, n int, group string) {
			if row.Has(cat.Blocking) {
				return
			}
			scns = append(scns, fw.Scenario{ID: "C06/" + row.Name, Group: group, Run: func(c *fw.Ctx) {
				for _, w := range legalN(row, n) {
					for k := 0; k <= len(w); k++ {
						c.Explore(c06Cut(row, w, k, false))
						if k < len(w) {
							c.Explore(c06Cut(row, w, k, true))
						}
					}
				}
			}})
		}
		for _, row := range rows {
			addRow(row, L, row.Family)
		}
		for _, row := range pairs {
			addRow(row, LP, "pairs")
		}
		scns = append(scns, c06Concurrent(tier)...)
		return scns
	}
}

var _ = strings.Join
