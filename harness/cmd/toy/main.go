package main

import (
	"fmt"

	"github.com/samber/ro"
	"verif.local/vrt"
	"verif.local/vrt/explore"
)

func main() {
	outcomes := map[string]int{}
	run := func(prefix []int) *vrt.Result {
		var log string
		maxInside, inside := 0, 0
		r := vrt.Run(vrt.Options{}, prefix, func() {
			a := ro.NewPublishSubject[int]()
			b := ro.NewPublishSubject[int]()
			obs := ro.Merge[int](a, b)
			sub := obs.Subscribe(ro.NewObserver(
				func(v int) {
					inside++
					if inside > maxInside {
						maxInside = inside
					}
					vrt.Yield()
					log += fmt.Sprint(v)
					inside--
				},
				func(err error) { log += "E" },
				func() { log += "C" },
			))
			_ = sub
			vrt.Go(func() { a.Next(1); a.Next(2); a.Complete() })
			vrt.Go(func() { b.Next(7); b.Complete() })
		})
		if r.Crash != nil || r.Fatal != "" || len(r.Blocked) > 0 {
			fmt.Printf("PROBLEM %+v\n", r)
		}
		outcomes[fmt.Sprintf("%s max=%d", log, maxInside)]++
		return r
	}
	for b := 0; b <= 2; b++ {
		st := explore.DFS(run, b, explore.Limits{}, func(p []int, r *vrt.Result) bool { return true })
		fmt.Printf("bound %d: %+v\n", b, st)
	}
	fmt.Println(outcomes)
}
