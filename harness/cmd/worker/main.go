// Command worker runs the scenarios of one property (one shard of them) against the instrumented build.
package main

import (
	"fmt"
	"os"

	"verif.local/harness/checks"
	"verif.local/harness/fw"
	_ "verif.local/harness/plugchecks"
	_ "verif.local/harness/promchecks"
)

func main() {
	if len(os.Args) < 2 {
		fmt.Fprintln(os.Stderr, "usage: worker <property> [--tier quick|thorough] [--shard i/n] [--replay file] [--only substr] [--list]")
		os.Exit(2)
	}
	prop := os.Args[1]
	build, ok := checks.Registry[prop]
	if !ok {
		fmt.Fprintln(os.Stderr, "worker: no driver for", prop)
		os.Exit(2)
	}
	os.Args = append(os.Args[:1], os.Args[2:]...)
	fw.Main(prop, build)
}
