// Package h is the harness library shared by every property driver: recording observers, counted
// sources, event scripts, global-hook routing. Everything that is touched from several managed
// threads is a //go:norace method on a non-generic type: the harness never synchronises on its own
// (that would add happens-before edges and hide races of the library) and never shows up as a race
// itself (only one thread runs at a time under the scheduler).
package h

import (
	"context"
	"errors"
	"fmt"
	"reflect"
	"strings"
	"unsafe"

	"github.com/samber/ro"
	"verif.local/vrt"
)

// Kind of a notification.
type Kind uint8

const (
	N Kind = iota
	E
	C
)

// Ev is one notification of a script or a trace.
type Ev struct {
	K   Kind
	V   interface{}
	Err error
}

func (e Ev) String() string {
	switch e.K {
	case N:
		return fmt.Sprintf("N%v", e.V)
	case E:
		if e.Err == nil {
			return "E(nil)"
		}
		return "E(" + e.Err.Error() + ")"
	}
	return "C"
}

// Short renders an event compactly and canonically (errors by class, for outcome fingerprints).
func (e Ev) Short() string {
	switch e.K {
	case N:
		// values that print as an address (channels, functions, pointers) would make the rendering
		// differ from run to run: name their type instead
		if e.V != nil {
			switch reflect.TypeOf(e.V).Kind() {
			case reflect.Chan, reflect.Func, reflect.Ptr, reflect.UnsafePointer:
				return "<" + reflect.TypeOf(e.V).String() + ">"
			}
		}
		return fmt.Sprintf("%v", e.V)
	case E:
		return "E"
	}
	return "C"
}

// ErrSrc is the error scripts end with; ErrAlt is a second, distinguishable one.
var (
	ErrSrc = errors.New("verif: source error")
	ErrAlt = errors.New("verif: other error")
	ErrCb  = errors.New("verif: callback failure")
)

func Nx(v interface{}) Ev { return Ev{K: N, V: v} }
func Er(err error) Ev     { return Ev{K: E, Err: err} }
func Co() Ev              { return Ev{K: C} }

// Word renders a script.
func Word(w []Ev) string {
	var sb strings.Builder
	for i, e := range w {
		if i > 0 {
			sb.WriteByte(' ')
		}
		sb.WriteString(e.Short())
	}
	return sb.String()
}

type ctxKey string

// Context markers (C09): attached at subscription, mid-pipeline and per item.
const (
	KeySub  ctxKey = "verif.sub"
	KeyMid  ctxKey = "verif.mid"
	KeyItem ctxKey = "verif.item"
)

// Entry is one line of a recorder log.
type Entry struct {
	Ev
	CtxNil  bool
	Sub     interface{}
	Mid     interface{}
	Item    interface{}
	Thread  int
	In, Out uint64
	T       int64 // virtual ns at entry
}

// Rec records everything one observer receives; it keeps listening after a terminal notification.
type Rec struct {
	Name      string
	Log       []Entry
	inside    int
	MaxInside int
	Overlap   string
	YieldIn   bool // a scheduling point inside every callback
	// Hook runs inside the callback after the entry has been logged (fault injection,
	// unsubscribe-from-inside, stalls). It runs on the delivering thread.
	Hook func(r *Rec, idx int, e Ev)
	// Raw makes the check helpers subscribe this recorder through RawObserver (an ro.Observer
	// implemented by hand, without ro.NewObserver's own closed-status guard).
	Raw  bool
	snap [][]byte
}

// NewRec makes a recorder.
func NewRec(name string) *Rec {
	return &Rec{Name: name, Log: make([]Entry, 0, 32)}
}

//go:norace
func (r *Rec) enter(ctx context.Context, e Ev) int {
	if vrt.Aborting() {
		return -1
	}
	r.inside++
	if r.inside > r.MaxInside {
		r.MaxInside = r.inside
	}
	if r.inside > 1 && r.Overlap == "" {
		r.Overlap = fmt.Sprintf("callback %s entered on thread %d while another callback of the same observer was running", e.Short(), vrt.Self())
	}
	en := Entry{Ev: e, Thread: vrt.Self(), In: vrt.Tick(), T: vrt.NowNS()}
	if ctx == nil {
		en.CtxNil = true
	} else {
		en.Sub = ctx.Value(KeySub)
		en.Mid = ctx.Value(KeyMid)
		en.Item = ctx.Value(KeyItem)
	}
	r.Log = append(r.Log, en)
	return len(r.Log) - 1
}

//go:norace
func (r *Rec) exit(i int) {
	if i < 0 || vrt.Aborting() {
		return
	}
	r.inside--
	if i < len(r.Log) {
		r.Log[i].Out = vrt.Tick()
	}
}

//go:norace
func (r *Rec) hook() func(r *Rec, idx int, e Ev) { return r.Hook }

//go:norace
func (r *Rec) yields() bool { return r.YieldIn }

func (r *Rec) on(ctx context.Context, e Ev) {
	if r.yields() {
		// before the entry is logged: a check-then-deliver window in the library stays open here
		vrt.Yield()
	}
	i := r.enter(ctx, e)
	if i < 0 {
		return
	}
	defer r.exit(i)
	if r.yields() {
		vrt.Yield()
	}
	if hk := r.hook(); hk != nil {
		hk(r, i, e)
	}
}

// Snap deep-copies a delivered value so that later mutation by the library can be detected.
func Snap(v interface{}) interface{} {
	if v == nil {
		return nil
	}
	rv := reflect.ValueOf(v)
	switch rv.Kind() {
	case reflect.Slice:
		if rv.IsNil() {
			return v
		}
		c := reflect.MakeSlice(rv.Type(), rv.Len(), rv.Len())
		reflect.Copy(c, rv)
		for i := 0; i < c.Len(); i++ {
			if k := c.Index(i).Kind(); k == reflect.Slice || k == reflect.Map {
				c.Index(i).Set(reflect.ValueOf(Snap(c.Index(i).Interface())))
			}
		}
		return c.Interface()
	case reflect.Map:
		if rv.IsNil() {
			return v
		}
		c := reflect.MakeMapWithSize(rv.Type(), rv.Len())
		it := rv.MapRange()
		for it.Next() {
			c.SetMapIndex(it.Key(), it.Value())
		}
		return c.Interface()
	}
	return v
}

// Observer builds the ro.Observer that feeds r. Values are kept both as delivered (V) so that
// aliasing shows, and snapshots are compared by the aliasing oracle through Snaps.
func Observer[T any](r *Rec) ro.Observer[T] {
	return ro.NewObserverWithContext(
		func(ctx context.Context, v T) { r.on(ctx, Ev{K: N, V: v}) },
		func(ctx context.Context, err error) { r.on(ctx, Ev{K: E, Err: err}) },
		func(ctx context.Context) { r.on(ctx, Ev{K: C}) },
	)
}

// RawObserver is an observer that implements ro.Observer itself instead of going through
// ro.NewObserver: it has no status guard of its own, so whatever the library hands to it is recorded,
// also after a terminal notification (ro.NewObserver's implementation would silently drop that).
func RawObserver[T any](r *Rec) ro.Observer[T] { return &rawObserver[T]{r: r} }

type rawObserver[T any] struct {
	r      *Rec
	status int32 // 0 open, 1 errored, 2 completed (what IsClosed & co. report; never used to filter)
}

//go:norace
func (o *rawObserver[T]) set(v int32) { o.status = v }

//go:norace
func (o *rawObserver[T]) get() int32 { return o.status }

func (o *rawObserver[T]) Next(v T)      { o.NextWithContext(context.Background(), v) }
func (o *rawObserver[T]) Error(e error) { o.ErrorWithContext(context.Background(), e) }
func (o *rawObserver[T]) Complete()     { o.CompleteWithContext(context.Background()) }
func (o *rawObserver[T]) NextWithContext(ctx context.Context, v T) {
	o.r.on(ctx, Ev{K: N, V: v})
}
func (o *rawObserver[T]) ErrorWithContext(ctx context.Context, err error) {
	o.r.on(ctx, Ev{K: E, Err: err})
	o.set(1)
}
func (o *rawObserver[T]) CompleteWithContext(ctx context.Context) {
	o.r.on(ctx, Ev{K: C})
	o.set(2)
}
func (o *rawObserver[T]) IsClosed() bool    { return o.get() != 0 }
func (o *rawObserver[T]) HasThrown() bool   { return o.get() == 1 }
func (o *rawObserver[T]) IsCompleted() bool { return o.get() == 2 }

// Add appends an event directly (used by Tap-style probes that are not observers).
//
//go:norace
func (r *Rec) Add(e Ev) {
	if vrt.Aborting() {
		return
	}
	r.Log = append(r.Log, Entry{Ev: e, Thread: vrt.Self(), In: vrt.Tick(), T: vrt.NowNS()})
}

// Events returns the recorded notifications.
//
//go:norace
func (r *Rec) Events() []Ev {
	out := make([]Ev, len(r.Log))
	for i := range r.Log {
		out[i] = r.Log[i].Ev
	}
	return out
}

// Len is the number of notifications recorded so far.
//
//go:norace
func (r *Rec) Len() int { return len(r.Log) }

// Trace renders the recorded notifications.
func (r *Rec) Trace() string { return Word(r.Events()) }

// Values returns the recorded Next values.
func (r *Rec) Values() []interface{} {
	var out []interface{}
	for _, e := range r.Events() {
		if e.K == N {
			out = append(out, e.V)
		}
	}
	return out
}

// GrammarError checks N* (E|C)? on the trace; "" if fine.
func GrammarError(evs []Ev) string {
	for i, e := range evs {
		if e.K != N && i != len(evs)-1 {
			return fmt.Sprintf("notification %s delivered after terminal %s (position %d of %s)", evs[i+1].Short(), e.Short(), i+1, Word(evs))
		}
	}
	return ""
}

// SameEv compares two notifications: values by DeepEqual, errors by errors.Is in either direction.
func SameEv(a, b Ev) bool {
	if a.K != b.K {
		return false
	}
	switch a.K {
	case N:
		return eqVal(a.V, b.V)
	case E:
		if a.Err == nil || b.Err == nil {
			return a.Err == b.Err
		}
		return errors.Is(a.Err, b.Err) || errors.Is(b.Err, a.Err) || a.Err.Error() == b.Err.Error()
	}
	return true
}

func eqVal(a, b interface{}) bool {
	if fa, ok := a.(float64); ok {
		if fb, ok := b.(float64); ok {
			if fa != fa && fb != fb {
				return true
			}
			return fa == fb
		}
	}
	return reflect.DeepEqual(a, b)
}

// SameTrace compares two traces.
func SameTrace(a, b []Ev) bool {
	if len(a) != len(b) {
		return false
	}
	for i := range a {
		if !SameEv(a[i], b[i]) {
			return false
		}
	}
	return true
}

// Src is the instrumentation of one source observable.
type Src struct {
	Name        string
	Subs        int
	Teardowns   int
	Live        int
	MaxLive     int
	SubCtxNil   bool
	SubMarks    []interface{}
	SubAt       []uint64
	TearAt      []uint64
	Emitted     int
	AfterTear   int  // notifications the harness pushed while nobody was subscribed
	PanicOnTear bool // the teardown of this source panics (after it has been counted)
	MaxOpen     int  // pushed sources: max number of subscriptions open at once (a closed subscription whose teardown is still pending does not count)
}

func NewSrc(name string) *Src { return &Src{Name: name} }

//go:norace
func (s *Src) onSub(ctx context.Context) {
	if vrt.Aborting() {
		return
	}
	s.Subs++
	s.Live++
	if s.Live > s.MaxLive {
		s.MaxLive = s.Live
	}
	if ctx == nil {
		s.SubCtxNil = true
		s.SubMarks = append(s.SubMarks, nil)
	} else {
		s.SubMarks = append(s.SubMarks, ctx.Value(KeySub))
	}
	s.SubAt = append(s.SubAt, vrt.Tick())
}

//go:norace
func (s *Src) onTear() {
	if vrt.Aborting() {
		return
	}
	s.Teardowns++
	s.Live--
	s.TearAt = append(s.TearAt, vrt.Tick())
	if s.PanicOnTear {
		panic(fmt.Errorf("teardown of %s: %w", s.Name, ErrCb))
	}
}

//go:norace
func (s *Src) emitted() { s.Emitted++ }

// Snapshot of the counters (read from any thread).
//
//go:norace
func (s *Src) Get() (subs, tears, live, maxLive int) { return s.Subs, s.Teardowns, s.Live, s.MaxLive }

// Mode selects the observable constructor.
type Mode int

const (
	Unsafe Mode = iota
	Safe
	Eventually
)

func mk[T any](m Mode, f func(ctx context.Context, d ro.Observer[T]) ro.Teardown) ro.Observable[T] {
	switch m {
	case Safe:
		return ro.NewSafeObservableWithContext(f)
	case Eventually:
		return ro.NewEventuallySafeObservableWithContext(f)
	}
	return ro.NewUnsafeObservableWithContext(f)
}

// PanicEvent is raised by a source that meets the pseudo-notification kind 99 (C07: a failing subscribe function).
var PanicEvent func()

// Play sends one event to d; item contexts carry KeyItem=i derived from ctx.
func Play[T any](ctx context.Context, d ro.Observer[T], i int, e Ev) {
	switch e.K {
	case 99:
		PanicEvent()
	case N:
		var v T
		if e.V != nil {
			v = e.V.(T)
		}
		ictx := ctx
		if ctx != nil {
			ictx = context.WithValue(ctx, KeyItem, i)
		}
		d.NextWithContext(ictx, v)
	case E:
		d.ErrorWithContext(ctx, e.Err)
	case C:
		d.CompleteWithContext(ctx)
	}
}

// Script is a cold source: every subscription plays word (legal or not) synchronously.
func Script[T any](s *Src, m Mode, word []Ev) ro.Observable[T] {
	return mk(m, func(ctx context.Context, d ro.Observer[T]) ro.Teardown {
		s.onSub(ctx)
		for i, e := range word {
			s.emitted()
			Play(ctx, d, i, e)
		}
		return s.onTear
	})
}

// ScriptFn is Script with the word chosen at each subscription (a source whose successive
// subscriptions behave differently: fails the first time, succeeds the second).
func ScriptFn[T any](s *Src, m Mode, word func() []Ev) ro.Observable[T] {
	return mk(m, func(ctx context.Context, d ro.Observer[T]) ro.Teardown {
		s.onSub(ctx)
		for i, e := range word() {
			s.emitted()
			Play(ctx, d, i, e)
		}
		return s.onTear
	})
}

// Push is the producer side of a Pushed source.
type Push[T any] struct {
	S *Src
	c pushCore
}

type pushCore struct {
	s    *Src
	dsts []pushDst
	seq  int
	sync int64 // stands for the lock a real hot source keeps its subscriber list under
}

type pushDst struct {
	d    interface{}
	ctx  context.Context
	live bool
}

//go:norace
func (p *pushCore) add(ctx context.Context, d interface{}) int {
	// subscriptions that are still open (neither torn down nor already closed and about to be torn down)
	open := 1
	for _, x := range p.dsts {
		if x.live {
			if c, ok := x.d.(interface{ IsClosed() bool }); ok && c.IsClosed() {
				continue
			}
			open++
		}
	}
	if open > p.s.MaxOpen {
		p.s.MaxOpen = open
	}
	p.dsts = append(p.dsts, pushDst{d: d, ctx: ctx, live: true})
	// registering a subscriber happens before every later emission to it (a real source synchronises here)
	vrt.RaceReleaseMerge(unsafe.Pointer(&p.sync))
	return len(p.dsts) - 1
}

//go:norace
func (p *pushCore) drop(i int) { p.dsts[i].live = false }

//go:norace
func (p *pushCore) targets() []pushDst {
	vrt.RaceAcquire(unsafe.Pointer(&p.sync))
	var out []pushDst
	for _, d := range p.dsts {
		if d.live {
			out = append(out, d)
		}
	}
	if len(out) == 0 && !vrt.Aborting() {
		p.s.AfterTear++
	}
	return out
}

//go:norace
func (p *pushCore) nextSeq() int { p.seq++; return p.seq - 1 }

// Emit delivers e to every live subscription; it reports whether anybody was still subscribed.
func (p *Push[T]) Emit(e Ev) bool {
	ts := p.c.targets()
	i := p.c.nextSeq()
	for _, t := range ts {
		p.S.emitted()
		Play(t.ctx, t.d.(ro.Observer[T]), i, e)
	}
	return len(ts) > 0
}

func (p *Push[T]) Next(v T)        { p.Emit(Ev{K: N, V: v}) }
func (p *Push[T]) Error(err error) { p.Emit(Ev{K: E, Err: err}) }
func (p *Push[T]) Complete()       { p.Emit(Ev{K: C}) }

// Pushed is a hot-style source: Subscribe stores the destination, the harness (or a producer thread)
// emits later. It never ends by itself.
func Pushed[T any](s *Src, m Mode) (ro.Observable[T], *Push[T]) {
	p := &Push[T]{S: s, c: pushCore{s: s}}
	obs := mk(m, func(ctx context.Context, d ro.Observer[T]) ro.Teardown {
		s.onSub(ctx)
		i := p.c.add(ctx, d)
		return func() {
			p.c.drop(i)
			s.onTear()
		}
	})
	return obs, p
}

// Attempts is a source whose n-th subscription plays the n-th script (the last one repeats). It records
// the destination of every subscription, so that MaxOpen counts attempts that are open at the same time
// (an attempt that has terminated or been unsubscribed is closed even if its teardown is still pending).
func Attempts[T any](s *Src, m Mode, scripts [][]Ev, async bool) ro.Observable[T] {
	core := &pushCore{s: s}
	return mk(m, func(ctx context.Context, d ro.Observer[T]) ro.Teardown {
		s.onSub(ctx)
		slot := core.add(ctx, d)
		n, _, _, _ := s.Get()
		n--
		if n >= len(scripts) {
			n = len(scripts) - 1
		}
		word := scripts[n]
		play := func() {
			for i, e := range word {
				s.emitted()
				Play(ctx, d, i, e)
			}
		}
		if async {
			vrt.GoNamed("attempt", play)
		} else {
			play()
		}
		return func() {
			core.drop(slot)
			s.onTear()
		}
	})
}

// Hooks collects what reached the library's global hooks during one execution.
type Hooks struct {
	Dropped   []string
	Unhandled []error
}

var curHooks *Hooks

//go:norace
func hookDropped(ctx context.Context, n fmt.Stringer) {
	if hk := curHooks; hk != nil && !vrt.Aborting() {
		hk.Dropped = append(hk.Dropped, n.String())
	}
}

//go:norace
func hookUnhandled(ctx context.Context, err error) {
	if hk := curHooks; hk != nil && !vrt.Aborting() {
		hk.Unhandled = append(hk.Unhandled, err)
	}
}

// InstallHooks routes ro's global hooks to the current execution's Hooks (call once per process).
func InstallHooks() {
	ro.OnDroppedNotification = hookDropped
	ro.OnUnhandledError = hookUnhandled
}

// BeginHooks starts collecting into a fresh Hooks.
//
//go:norace
func BeginHooks() *Hooks {
	hk := &Hooks{}
	curHooks = hk
	return hk
}

// RuntimeErrors lists the Go runtime errors (nil dereference, index out of range, ...) that the library
// recovered during the current execution and handed to a hook instead of an observer: no input of the
// harness can legitimately cause one, so each is an internal fault the stream silently survived.
//
//go:norace
func RuntimeErrors() []string {
	hk := curHooks
	if hk == nil {
		return nil
	}
	var out []string
	for _, d := range hk.Dropped {
		if strings.Contains(d, "runtime error:") {
			out = append(out, d)
		}
	}
	for _, e := range hk.Unhandled {
		if e != nil && strings.Contains(e.Error(), "runtime error:") {
			out = append(out, e.Error())
		}
	}
	return out
}

// Words enumerates all words of length <= maxLen over alphabet (shortest first).
func Words(alphabet []Ev, maxLen int) [][]Ev {
	out := [][]Ev{{}}
	prev := [][]Ev{{}}
	for l := 1; l <= maxLen; l++ {
		var cur [][]Ev
		for _, p := range prev {
			for _, a := range alphabet {
				w := append(append([]Ev{}, p...), a)
				cur = append(cur, w)
			}
		}
		out = append(out, cur...)
		prev = cur
	}
	return out
}

// Legal enumerates legal scripts: bodies of <= maxVals values over vals, with ending C, E or none.
func Legal(vals []interface{}, maxVals int, endings []Kind, withOpen bool) [][]Ev {
	var alpha []Ev
	for _, v := range vals {
		alpha = append(alpha, Nx(v))
	}
	var out [][]Ev
	for _, body := range Words(alpha, maxVals) {
		if withOpen {
			out = append(out, body)
		}
		for _, k := range endings {
			w := append([]Ev{}, body...)
			if k == C {
				w = append(w, Co())
			} else {
				w = append(w, Er(ErrSrc))
			}
			out = append(out, w)
		}
	}
	return out
}

// LegalPrefix truncates a word after its first terminal (what a contract-abiding consumer may see).
func LegalPrefix(w []Ev) []Ev {
	for i, e := range w {
		if e.K != N {
			return w[:i+1]
		}
	}
	return w
}
