package fw

import (
	"fmt"
	"os"
	"regexp"
	"sort"
	"strings"

	"verif.local/vrt"
)

// Race-detector oracle: the worker is built with -race and GORACE=log_path=...; after every execution the
// part of the log written during that execution (teardown excluded) is parsed into reports. A report
// counts when the accessing function of one of the two accesses belongs to samber/ro: the library
// touched its own memory without synchronisation.

var (
	raceOff     int64
	raceValid   []string
	raceEnabled bool
	racePath    string
	raceAll     int
	raceForeign int
)

func raceFile() string {
	if racePath != "" {
		return racePath
	}
	for _, kv := range strings.Fields(os.Getenv("GORACE")) {
		if strings.HasPrefix(kv, "log_path=") {
			racePath = fmt.Sprintf("%s.%d", strings.TrimPrefix(kv, "log_path="), os.Getpid())
		}
	}
	return racePath
}

func raceSize() int64 {
	st, err := os.Stat(raceFile())
	if err != nil {
		return 0
	}
	return st.Size()
}

func raceRead(from, to int64) string {
	if to <= from {
		return ""
	}
	f, err := os.Open(raceFile())
	if err != nil {
		return ""
	}
	defer f.Close()
	buf := make([]byte, to-from)
	n, _ := f.ReadAt(buf, from)
	return string(buf[:n])
}

func raceInit() {
	if raceEnabled {
		return
	}
	raceEnabled = true
	vrt.AbortHook = func(phase int) {
		sz := raceSize()
		if phase == 0 {
			if txt := raceRead(raceOff, sz); txt != "" {
				raceValid = append(raceValid, txt)
			}
		}
		raceOff = sz
	}
}

func raceBegin() {
	raceInit()
	raceOff = raceSize()
	raceValid = raceValid[:0]
}

var frameRe = regexp.MustCompile(`^  (\S+)\(\)$`)

// topFrames returns, for each access of a report, the first non-runtime function.
// topFrames returns, for each of the two accesses of a report, the innermost frame that is not in the Go
// runtime: its function name, and whether its source file belongs to the library under test. Closures of
// generic library functions that were inlined into a harness function carry the harness function's name
// (checks.f.Share[...].func1), so the file decides, not the name.
func topFrames(report string) []string {
	var tops []string
	lines := strings.Split(report, "\n")
	in := false
	for i, ln := range lines {
		switch {
		case strings.HasPrefix(ln, "Read at ") || strings.HasPrefix(ln, "Write at ") || strings.HasPrefix(ln, "Previous read at ") || strings.HasPrefix(ln, "Previous write at ") ||
			strings.HasPrefix(ln, "Atomic ") || strings.HasPrefix(ln, "Previous atomic "):
			in = true
		case strings.HasPrefix(ln, "Goroutine ") || ln == "":
			in = false
		case in:
			if m := frameRe.FindStringSubmatch(ln); m != nil {
				fn := m[1]
				if strings.HasPrefix(fn, "runtime.") || strings.HasPrefix(fn, "sync.") || strings.HasPrefix(fn, "sync/atomic.") || strings.HasPrefix(fn, "internal/") {
					continue
				}
				if i+1 < len(lines) && libraryFile(strings.TrimSpace(lines[i+1])) && !strings.HasPrefix(fn, "github.com/samber/ro") {
					// name it as the library function it is: drop the harness prefix up to the first exported ro name
					fn = "github.com/samber/ro." + libName(fn)
				}
				tops = append(tops, fn)
				in = false
			}
		}
	}
	return tops
}

// libraryFile: the frame's "file:line +0x.." line points into the repository under test (not its tests).
func libraryFile(loc string) bool {
	if i := strings.IndexByte(loc, ':'); i >= 0 {
		loc = loc[:i]
	}
	if strings.HasSuffix(loc, "_test.go") {
		return false
	}
	return strings.HasPrefix(loc, "/repo/") || strings.Contains(loc, "/ulule-limiter/")
}

// libName keeps the part of an inlined closure's name that starts at the library function.
func libName(fn string) string {
	if i := strings.LastIndexByte(fn, '/'); i >= 0 {
		fn = fn[i+1:]
	}
	parts := strings.Split(fn, ".")
	for i, p := range parts {
		if i > 0 && p != "" && p[0] >= 'A' && p[0] <= 'Z' {
			return strings.Join(parts[i:], ".")
		}
	}
	return fn
}

func raceReports(group string) []Violation {
	var out []Violation
	for _, txt := range raceValid {
		for _, rep := range strings.Split(txt, "==================") {
			if !strings.Contains(rep, "WARNING: DATA RACE") {
				continue
			}
			raceAll++
			tops := topFrames(rep)
			var lib []string
			for _, t := range tops {
				if strings.HasPrefix(t, "github.com/samber/ro") {
					lib = append(lib, shortFn(t))
				}
			}
			if len(lib) == 0 {
				raceForeign++
				if dumpCases != "" {
					fmt.Fprintf(os.Stderr, "DUMP foreign race report, innermost frames: %v\n", tops)
				}
				continue
			}
			all := make([]string, 0, len(tops))
			for _, t := range tops {
				all = append(all, shortFn(t))
			}
			sort.Strings(all)
			out = append(out, Violation{Signature: "race/" + group + "/data-race/" + strings.Join(all, "+"), Detail: strings.TrimSpace(rep)})
		}
	}
	raceValid = raceValid[:0]
	return out
}

var instRe = regexp.MustCompile(`\[[^\]]*\]`)

func shortFn(fn string) string {
	fn = strings.TrimPrefix(fn, "github.com/samber/ro")
	fn = strings.TrimPrefix(fn, ".")
	fn = strings.TrimPrefix(fn, "/")
	fn = instRe.ReplaceAllString(fn, "")
	fn = strings.ReplaceAll(fn, "/", ".")
	return fn
}

// RaceCounters reports how many race reports were seen and how many were outside the library.
func RaceCounters() (all, foreign int) { return raceAll, raceForeign }
