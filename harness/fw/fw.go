// Package fw is the check framework: scenarios, cases, exhaustive exploration of each case, violation
// bookkeeping with replayable witnesses, per-worker statistics.
package fw

import (
	"crypto/sha1"
	"encoding/hex"
	"encoding/json"
	"fmt"
	"os"
	"sort"
	"strings"
	"time"

	"verif.local/harness/h"
	"verif.local/vrt"
	"verif.local/vrt/explore"
)

// Violation is one oracle failure with everything needed to replay it.
type Violation struct {
	Property  string `json:"property"`
	Signature string `json:"signature"` // <scenario-kind>/<operator>/<clause>/<witness-class>
	Scenario  string `json:"scenario"`
	Case      string `json:"case"`
	Detail    string `json:"detail"`
	Choices   []int  `json:"choices"`
	Pinned    bool   `json:"pinned,omitempty"` // difference on a clause that only pins current behaviour: never a VIOLATION
	Replays   int    `json:"replays_identical,omitempty"`
}

// Stats is what a worker (or a merged run) covered.
type Stats struct {
	Scenarios    int              `json:"scenarios"`
	Cases        int              `json:"cases"`
	Executions   int64            `json:"executions"`
	Transitions  int64            `json:"transitions"`
	ChoicePoints int64            `json:"choice_points"`
	Switches     int64            `json:"switches"`
	MaxDepth     int              `json:"max_depth"`
	MaxThreads   int              `json:"max_threads"`
	Outcomes     int64            `json:"distinct_outcomes"` // summed over cases
	Nontrivial   int64            `json:"distinct_nontrivial"`
	States       int64            `json:"states"`
	Incomplete   []string         `json:"incomplete,omitempty"`
	Unmodelled   []string         `json:"unmodelled,omitempty"`
	Vacuous      []string         `json:"single_outcome_cases,omitempty"`
	ByGroup      map[string]int   `json:"executions_by_group,omitempty"`
	Extra        map[string]int64 `json:"extra,omitempty"`
}

// Report is a worker's output.
type Report struct {
	Stats      Stats         `json:"stats"`
	Violations []Violation   `json:"violations"`
	Samples    []interface{} `json:"samples"`
	WallS      float64       `json:"wall_s"`
}

// Scenario is a unit of work that a worker can be assigned.
type Scenario struct {
	ID    string
	Group string
	Run   func(c *Ctx)
}

// Replay selects one case and one choice list.
type Replay struct {
	Scenario string `json:"scenario"`
	Case     string `json:"case"`
	Choices  []int  `json:"choices"`
}

// Ctx is handed to a scenario; it accumulates statistics and violations.
type Ctx struct {
	Property string
	Tier     string
	Scn      *Scenario
	Rep      *Report
	Deadline time.Time
	replay   *Replay
	sigSeen  map[string]bool
	samples  int
	// ReplayTraces collects the observable outcome of each replayed run.
	ReplayOutcomes []string
	ReplayViol     []Violation
}

// Thorough reports whether the thorough tier runs.
func (c *Ctx) Thorough() bool { return c.Tier == "thorough" }

// Instance is one fresh instantiation of a case: the body to run as thread 0, and what to check afterwards.
type Instance struct {
	Body func()
	// Check returns violations (Signature, Detail and optionally Pinned filled in; the rest is added by the framework).
	Check func(r *vrt.Result) []Violation
	// Outcome is a canonical rendering of what the observers saw (to count distinct outcomes).
	Outcome func() string
	// Nontrivial says whether this execution exercised what the case is about.
	Nontrivial func(r *vrt.Result) bool
	// Recorders exposes the observers of the instance to an alternative oracle (see AltCheck).
	Recorders func() []*h.Rec
}

// Case describes one closed driver to explore exhaustively.
type Case struct {
	Name    string
	Bound   int
	Opts    vrt.Options
	MaxExec int
	Make    func() Instance
	// AllowBlocked: threads left blocked at the end are expected (never-ending sources).
	Sample bool
}

func (c *Ctx) addViolation(v Violation) {
	if c.sigSeen == nil {
		c.sigSeen = map[string]bool{}
	}
	key := v.Signature
	if c.sigSeen[key] {
		return
	}
	c.sigSeen[key] = true
	c.Rep.Violations = append(c.Rep.Violations, v)
}

// V is a convenience constructor for a violation inside a Check function.
func V(sig, detail string) Violation { return Violation{Signature: sig, Detail: detail} }

// Pinned marks a difference on a pinned clause.
func Pinned(sig, detail string) Violation {
	return Violation{Signature: sig, Detail: detail, Pinned: true}
}

// BoundCap, if >= 0, caps the deviation bound of every case (used by the race-detector pass, whose
// executions are an order of magnitude slower).
var BoundCap = -1

// AltCheck, if set, replaces the oracle of every case that exposes its recorders: a property that borrows
// the concurrent drivers of another one judges the same executions by its own clauses.
var AltCheck func(recs []*h.Rec, r *vrt.Result) []Violation

// RaceOnly replaces every case's own oracle by the race-detector oracle.
var RaceOnly = false

// Explore runs every execution of the case within its bound and checks each one.
func (c *Ctx) Explore(cs Case) {
	if BoundCap >= 0 && cs.Bound > BoundCap {
		cs.Bound = BoundCap
	}
	if c.replay != nil {
		if c.replay.Case != cs.Name {
			return
		}
		c.doReplay(cs)
		return
	}
	st := &c.Rep.Stats
	st.Cases++
	outcomes := map[string]bool{}
	nontriv := map[string]bool{}
	var inst Instance
	var hooks *h.Hooks
	run := func(prefix []int) *vrt.Result {
		inst = cs.Make()
		hooks = h.BeginHooks()
		_ = hooks
		if RaceOnly {
			raceBegin()
		}
		return vrt.Run(cs.Opts, prefix, inst.Body)
	}
	lim := explore.Limits{MaxExecutions: cs.MaxExec, Deadline: c.Deadline}
	est := explore.DFS(run, cs.Bound, lim, func(prefix []int, r *vrt.Result) bool {
		o := ""
		if inst.Outcome != nil {
			o = inst.Outcome()
			outcomes[o] = true
		}
		if dumpCases != "" && strings.Contains(cs.Name, dumpCases) {
			// VERIF_DUMP=<substring of a case name>: one line per execution (diagnosis)
			fmt.Fprintf(os.Stderr, "DUMP %s | %s | choices=%v | outcome=%s | blocked=%v fatal=%q crash=%v horizon=%v now=%d timersLeft=%d\n", c.Scn.ID, cs.Name, explore.ChoiceList(r), o, r.Blocked, r.Fatal, r.Crash, r.HorizonHit, r.Now, r.TimersLeft)
		}
		// default rule: an execution is non-trivial when its observers received at least one notification
		if (inst.Nontrivial == nil && strings.Trim(o, " |") != "") || (inst.Nontrivial != nil && inst.Nontrivial(r)) {
			nontriv[o] = true
		}
		if RaceOnly {
			for _, v := range raceReports(c.Scn.Group) {
				v.Property = c.Property
				v.Scenario = c.Scn.ID
				v.Case = cs.Name
				v.Choices = explore.ChoiceList(r)
				c.addViolation(v)
			}
		} else if AltCheck != nil {
			if inst.Recorders != nil {
				for _, v := range AltCheck(inst.Recorders(), r) {
					v.Property = c.Property
					v.Scenario = c.Scn.ID
					v.Case = cs.Name
					v.Choices = explore.ChoiceList(r)
					c.addViolation(v)
				}
			}
		} else if inst.Check != nil {
			for _, v := range inst.Check(r) {
				v.Property = c.Property
				v.Scenario = c.Scn.ID
				v.Case = cs.Name
				v.Choices = explore.ChoiceList(r)
				c.addViolation(v)
			}
		}
		if r.Fatal != "" {
			msg := strings.SplitN(r.Fatal, "\n", 2)[0]
			if strings.HasPrefix(msg, "sync:") {
				// what the Go runtime reports as "fatal error: sync: unlock of unlocked mutex": the process dies
				c.addViolation(Violation{Property: c.Property, Scenario: c.Scn.ID, Case: cs.Name, Choices: explore.ChoiceList(r),
					Signature: c.Scn.Group + "/process-fatal-error/" + strings.ReplaceAll(strings.TrimPrefix(msg, "sync: "), " ", "-"),
					Detail:    cs.Name + ": the Go runtime would stop the process here: fatal error: " + msg})
			} else {
				// a limit of the scheduler model, not a verdict on the library: the driver refuses to conclude
				if st.Extra == nil {
					st.Extra = map[string]int64{}
				}
				st.Extra["unmodelled_operation"]++
				if len(st.Unmodelled) < 5 {
					st.Unmodelled = append(st.Unmodelled, fmt.Sprintf("%s/%s choices=%v: %s", c.Scn.ID, cs.Name, explore.ChoiceList(r), msg))
				}
			}
		}
		if r.HorizonHit {
			if st.Extra == nil {
				st.Extra = map[string]int64{}
			}
			st.Extra["executions_cut_at_horizon"]++
		}
		if (cs.Sample || (c.samples == 0 && o != "")) && c.samples < 3 && len(c.Rep.Samples) < 6 {
			c.samples++
			c.Rep.Samples = append(c.Rep.Samples, map[string]interface{}{
				"scenario": c.Scn.ID, "case": cs.Name, "choices": explore.ChoiceList(r), "outcome": o, "steps": r.Steps, "threads": r.Threads,
			})
		}
		return true
	})
	st.Executions += int64(est.Executions)
	st.Transitions += est.Transitions
	st.ChoicePoints += est.ChoicePts
	st.Switches += est.Switches
	if est.MaxDepth > st.MaxDepth {
		st.MaxDepth = est.MaxDepth
	}
	if est.MaxThreads > st.MaxThreads {
		st.MaxThreads = est.MaxThreads
	}
	st.Outcomes += int64(len(outcomes))
	st.Nontrivial += int64(len(nontriv))
	if st.ByGroup == nil {
		st.ByGroup = map[string]int{}
	}
	st.ByGroup[c.Scn.Group] += est.Executions
	if !est.Complete {
		st.Incomplete = append(st.Incomplete, fmt.Sprintf("%s/%s: %s after %d executions (bound %d)", c.Scn.ID, cs.Name, est.CapReason, est.Executions, cs.Bound))
	}
	if cs.Bound > 0 && est.Executions > 20 && len(outcomes) == 1 && len(st.Vacuous) < 50 {
		st.Vacuous = append(st.Vacuous, c.Scn.ID+"/"+cs.Name)
	}
}

var dumpCases = os.Getenv("VERIF_DUMP")

// Once runs a single-execution (sequential) case.
func (c *Ctx) Once(name string, mk func() Instance) {
	c.Explore(Case{Name: name, Bound: 0, Make: mk})
}

func (c *Ctx) doReplay(cs Case) {
	for i := 0; i < 5; i++ {
		inst := cs.Make()
		h.BeginHooks()
		opts := cs.Opts
		opts.StepTrace = i == 0 && os.Getenv("VERIF_STEPS") != ""
		r := vrt.Run(opts, c.replay.Choices, inst.Body)
		if opts.StepTrace {
			// VERIF_STEPS=1: the replayed schedule, one line per scheduling decision
			for n, st := range r.StepTrace {
				fmt.Fprintf(os.Stderr, "step %4d  %s\n", n, st)
			}
		}
		o := ""
		if inst.Outcome != nil {
			o = inst.Outcome()
		}
		if r.Diverged != "" {
			o = "DIVERGED: " + r.Diverged
		}
		var sigs []string
		if RaceOnly {
			for _, v := range raceReports(c.Scn.Group) {
				v.Property = c.Property
				v.Scenario = c.Scn.ID
				v.Case = cs.Name
				v.Choices = explore.ChoiceList(r)
				c.addViolation(v)
			}
		} else if AltCheck != nil {
			if inst.Recorders != nil {
				for _, v := range AltCheck(inst.Recorders(), r) {
					v.Property = c.Property
					v.Scenario = c.Scn.ID
					v.Case = cs.Name
					v.Choices = explore.ChoiceList(r)
					c.addViolation(v)
				}
			}
		} else if inst.Check != nil {
			for _, v := range inst.Check(r) {
				v.Property = c.Property
				v.Scenario = c.Scn.ID
				v.Case = cs.Name
				v.Choices = c.replay.Choices
				sigs = append(sigs, v.Signature)
				if i == 0 {
					c.ReplayViol = append(c.ReplayViol, v)
				}
			}
		}
		sort.Strings(sigs)
		c.ReplayOutcomes = append(c.ReplayOutcomes, o+" || "+strings.Join(sigs, ","))
	}
}

// AddExtra bumps a named counter in the evidence.
func (c *Ctx) AddExtra(k string, n int64) {
	if c.Rep.Stats.Extra == nil {
		c.Rep.Stats.Extra = map[string]int64{}
	}
	c.Rep.Stats.Extra[k] += n
}

// AddStates bumps the distinct-state counter (BFS drivers).
func (c *Ctx) AddStates(n int64) { c.Rep.Stats.States += n }

// Sample records a case written out for the evidence file.
func (c *Ctx) Sample(v interface{}) {
	if len(c.Rep.Samples) < 8 {
		c.Rep.Samples = append(c.Rep.Samples, v)
	}
}

// Main is the worker entry point: it runs the scenarios of its shard and prints a Report as JSON.
func Main(property string, build func(tier string) []Scenario) {
	tier := "quick"
	shard, nshard := 0, 1
	var replayFile, only string
	deadlineS := 0
	list := false
	args := os.Args[1:]
	for i := 0; i < len(args); i++ {
		switch args[i] {
		case "--tier":
			i++
			tier = args[i]
		case "--shard":
			i++
			fmt.Sscanf(args[i], "%d/%d", &shard, &nshard)
		case "--replay":
			i++
			replayFile = args[i]
		case "--only":
			i++
			only = args[i]
		case "--deadline":
			i++
			fmt.Sscanf(args[i], "%d", &deadlineS)
		case "--list":
			list = true
		}
	}
	h.InstallHooks()
	scns := build(tier)
	if list {
		for _, s := range scns {
			fmt.Println(s.ID)
		}
		return
	}
	start := time.Now()
	rep := &Report{}
	var dl time.Time
	if deadlineS > 0 {
		dl = start.Add(time.Duration(deadlineS) * time.Second)
	}
	if replayFile != "" {
		b, err := os.ReadFile(replayFile)
		if err != nil {
			fmt.Fprintln(os.Stderr, err)
			os.Exit(2)
		}
		var rp Replay
		if err := json.Unmarshal(b, &rp); err != nil {
			fmt.Fprintln(os.Stderr, err)
			os.Exit(2)
		}
		for i := range scns {
			if scns[i].ID != rp.Scenario {
				continue
			}
			c := &Ctx{Property: property, Tier: tier, Scn: &scns[i], Rep: rep, replay: &rp}
			scns[i].Run(c)
			same := len(c.ReplayOutcomes) == 5
			for _, o := range c.ReplayOutcomes {
				if o != c.ReplayOutcomes[0] {
					same = false
				}
			}
			out := map[string]interface{}{"scenario": rp.Scenario, "case": rp.Case, "runs": len(c.ReplayOutcomes), "identical": same, "outcomes": c.ReplayOutcomes, "violations": c.ReplayViol}
			b, _ := json.MarshalIndent(out, "", " ")
			fmt.Println(string(b))
			if !same {
				os.Exit(2)
			}
			if len(c.ReplayViol) > 0 {
				os.Exit(1)
			}
			return
		}
		fmt.Fprintln(os.Stderr, "replay: scenario not found:", rp.Scenario)
		os.Exit(2)
	}
	for i := range scns {
		if i%nshard != shard {
			continue
		}
		if only != "" && !strings.Contains(scns[i].ID, only) {
			continue
		}
		if !dl.IsZero() && time.Now().After(dl) {
			rep.Stats.Incomplete = append(rep.Stats.Incomplete, fmt.Sprintf("%s: not started (deadline)", scns[i].ID))
			continue
		}
		rep.Stats.Scenarios++
		c := &Ctx{Property: property, Tier: tier, Scn: &scns[i], Rep: rep, Deadline: dl}
		scns[i].Run(c)
	}
	rep.WallS = time.Since(start).Seconds()
	if RaceOnly {
		if rep.Stats.Extra == nil {
			rep.Stats.Extra = map[string]int64{}
		}
		all, foreign := RaceCounters()
		rep.Stats.Extra["race_reports"] = int64(all)
		rep.Stats.Extra["race_reports_outside_library_files"] = int64(foreign)
	}
	if rep.Violations == nil {
		rep.Violations = []Violation{}
	}
	b, _ := json.Marshal(rep)
	os.Stdout.Write(b)
	os.Stdout.Write([]byte("\n"))
}

// Hash8 is a short stable hash for file names.
func Hash8(s string) string {
	x := sha1.Sum([]byte(s))
	return hex.EncodeToString(x[:4])
}
