package roprometheus

// SetLicenseBypassForVerification switches the enterprise licence check on or off. This file is not
// part of samber/ro: the verification driver adds it to the package through `go build -overlay`.
func SetLicenseBypassForVerification(on bool) { bypassLicenseCheck = on }
