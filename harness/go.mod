module verif.local/harness

go 1.18

require (
	github.com/prometheus/client_golang v1.16.0
	github.com/prometheus/client_model v0.6.1
	github.com/samber/lo v1.52.0
	github.com/samber/ro v0.2.0
	github.com/samber/ro/ee v0.0.0
	github.com/samber/ro/ee/plugins/prometheus v0.0.0
	github.com/samber/ro/plugins/bytes v0.0.0
	github.com/samber/ro/plugins/encoding/base64 v0.0.0
	github.com/samber/ro/plugins/encoding/csv v0.0.0
	github.com/samber/ro/plugins/encoding/gob v0.0.0
	github.com/samber/ro/plugins/encoding/json v0.0.0
	github.com/samber/ro/plugins/ratelimit/native v0.0.0
	github.com/samber/ro/plugins/ratelimit/ulule v0.0.0
	github.com/samber/ro/plugins/regexp v0.0.0
	github.com/samber/ro/plugins/sort v0.0.0
	github.com/samber/ro/plugins/stdio v0.0.0
	github.com/samber/ro/plugins/strconv v0.0.0
	github.com/samber/ro/plugins/strings v0.0.0
	github.com/samber/ro/plugins/template v0.0.0
	github.com/samber/ro/plugins/time v0.0.0
	github.com/ulule/limiter/v3 v3.11.2
	golang.org/x/exp v0.0.0-20240613232115-7f521ea00fb8
	golang.org/x/sys v0.29.0
	verif.local/vrt v0.0.0
)

require (
	github.com/beorn7/perks v1.0.1 // indirect
	github.com/cespare/xxhash/v2 v2.3.0 // indirect
	github.com/golang/protobuf v1.5.3 // indirect
	github.com/matttproud/golang_protobuf_extensions v1.0.4 // indirect
	github.com/pkg/errors v0.9.1 // indirect
	github.com/prometheus/common v0.44.0 // indirect
	github.com/prometheus/procfs v0.15.1 // indirect
	golang.org/x/text v0.22.0 // indirect
	google.golang.org/protobuf v1.34.2 // indirect
)

replace github.com/samber/ro => /repo

replace verif.local/vrt => ../engine/vrt

replace github.com/samber/ro/plugins/strconv => /repo/plugins/strconv

replace github.com/samber/ro/plugins/regexp => /repo/plugins/regexp

replace github.com/samber/ro/plugins/strings => /repo/plugins/strings

replace github.com/samber/ro/plugins/bytes => /repo/plugins/bytes

replace github.com/samber/ro/plugins/time => /repo/plugins/time

replace github.com/samber/ro/plugins/template => /repo/plugins/template

replace github.com/samber/ro/plugins/encoding/base64 => /repo/plugins/encoding/base64

replace github.com/samber/ro/plugins/encoding/json => /repo/plugins/encoding/json

replace github.com/samber/ro/plugins/encoding/gob => /repo/plugins/encoding/gob

replace github.com/samber/ro/plugins/encoding/csv => /repo/plugins/encoding/csv

replace github.com/samber/ro/plugins/sort => /repo/plugins/sort

replace github.com/samber/ro/plugins/stdio => /repo/plugins/stdio

replace github.com/samber/ro/plugins/ratelimit/native => /repo/plugins/ratelimit/native

replace github.com/samber/ro/plugins/ratelimit/ulule => /repo/plugins/ratelimit/ulule

replace github.com/samber/ro/ee/plugins/prometheus => /repo/ee/plugins/prometheus

replace github.com/samber/ro/ee => /repo/ee

// a writable copy of the module (made by bin/setup from the module cache) so that the build overlay
// applies to its in-memory store
replace github.com/ulule/limiter/v3 => ../.cache/ulule-limiter
