module verif.local/harness

go 1.18

require (
	github.com/samber/lo v1.52.0
	github.com/samber/ro v0.0.0
	golang.org/x/exp v0.0.0-20240613232115-7f521ea00fb8
	verif.local/vrt v0.0.0
)

require golang.org/x/text v0.22.0 // indirect

replace github.com/samber/ro => /repo

replace verif.local/vrt => ../engine/vrt
