// Package plugchecks holds the drivers of the plugin properties (C18, C20).
package plugchecks

import (
	"bytes"
	"encoding/base64"
	"errors"
	"fmt"
	"io"
	"math"
	"reflect"
	"regexp"
	"sort"
	"strconv"
	"strings"
	"time"
	_ "time/tzdata"

	"github.com/samber/ro"
	robytes "github.com/samber/ro/plugins/bytes"
	robase64 "github.com/samber/ro/plugins/encoding/base64"
	rocsv "github.com/samber/ro/plugins/encoding/csv"
	rogob "github.com/samber/ro/plugins/encoding/gob"
	rojson "github.com/samber/ro/plugins/encoding/json"
	roregexp "github.com/samber/ro/plugins/regexp"
	rosort "github.com/samber/ro/plugins/sort"
	rostdio "github.com/samber/ro/plugins/stdio"
	rostrconv "github.com/samber/ro/plugins/strconv"
	rostrings "github.com/samber/ro/plugins/strings"
	rotemplate "github.com/samber/ro/plugins/template"
	rotime "github.com/samber/ro/plugins/time"
	"verif.local/harness/checks"
	"verif.local/harness/fw"
	"verif.local/harness/h"
	"verif.local/vrt"

	"encoding/csv"
)

// C18 - data plugins are faithful lifts of the functions they wrap. Inputs are enumerated, not sampled:
// all strings up to a length over a small alphabet that contains both letter cases, a digit, two
// separators, a 2-byte and a 3-byte rune and one invalid byte.

var textAlphabet = []string{"a", "B", "7", " ", "_", "é", "世", "\xff"}

func allStrings(alpha []string, maxLen int) []string {
	out := []string{""}
	prev := []string{""}
	for l := 1; l <= maxLen; l++ {
		var cur []string
		for _, p := range prev {
			for _, a := range alpha {
				cur = append(cur, p+a)
			}
		}
		out = append(out, cur...)
		prev = cur
	}
	return out
}

// run1 pushes the items through op and returns the trace.
func run1[T, R any](items []T, op func(ro.Observable[T]) ro.Observable[R]) (*h.Rec, *h.Src) {
	inputsCounter += len(items)
	rec := h.NewRec("out")
	src := h.NewSrc("src")
	word := make([]h.Ev, 0, len(items)+1)
	for _, it := range items {
		word = append(word, h.Nx(it))
	}
	word = append(word, h.Co())
	op(h.Script[T](src, h.Unsafe, word)).Subscribe(h.Observer[R](rec))
	return rec, src
}

type plugCase struct {
	group string
	name  string
	run   func() []fw.Violation
}

func contract(sig string, rec *h.Rec, src *h.Src) []fw.Violation {
	var out []fw.Violation
	if g := h.GrammarError(rec.Events()); g != "" {
		out = append(out, fw.V(sig+"/grammar/"+"broken", g))
	}
	if subs, tears, live, _ := src.Get(); subs != tears || live != 0 {
		out = append(out, fw.V(sig+"/source-not-released/teardown", fmt.Sprintf("subscribed %d, released %d", subs, tears)))
	}
	return out
}

// lift checks "output or terminating Error = wrapped function applied item by item".
func lift[T, R any](sig string, items []T, op func(ro.Observable[T]) ro.Observable[R], f func(T) (R, error), eq func(a, b R) bool) []fw.Violation {
	var escaped string
	var rec *h.Rec
	var src *h.Src
	func() {
		defer func() {
			if r := recover(); r != nil {
				escaped = fmt.Sprint(r)
			}
		}()
		rec, src = run1(items, op)
	}()
	if escaped != "" {
		return []fw.Violation{fw.V(sig+"/panic-escaped/subscribe", fmt.Sprintf("input %q: %s", fmt.Sprint(items), escaped))}
	}
	out := contract(sig, rec, src)
	evs := rec.Events()
	k := 0
	for _, it := range items {
		want, err := f(it)
		if k >= len(evs) {
			return append(out, fw.V(sig+"/lift/output-missing", fmt.Sprintf("input %q: trace [%s] ends before item %q", fmt.Sprint(items), rec.Trace(), fmt.Sprint(it))))
		}
		if err != nil {
			if evs[k].K != h.E {
				return append(out, fw.V(sig+"/lift/error-not-reported", fmt.Sprintf("item %q: the wrapped function fails with %q, the stream delivered %s", fmt.Sprint(it), err.Error(), evs[k].Short())))
			}
			if evs[k].Err == nil || (evs[k].Err.Error() != err.Error() && !errors.Is(evs[k].Err, err) && !strings.Contains(evs[k].Err.Error(), err.Error())) {
				return append(out, fw.V(sig+"/lift/error-differs", fmt.Sprintf("item %q: wrapped function error %q, stream error %q", fmt.Sprint(it), err.Error(), evs[k].Err)))
			}
			if k != len(evs)-1 {
				return append(out, fw.V(sig+"/lift/continues-after-error", fmt.Sprintf("trace [%s]", rec.Trace())))
			}
			return out
		}
		if evs[k].K != h.N {
			return append(out, fw.V(sig+"/lift/spurious-terminal", fmt.Sprintf("item %q: expected value %v, stream delivered %s (%v)", fmt.Sprint(it), want, evs[k].Short(), evs[k].Err)))
		}
		got, ok := evs[k].V.(R)
		if !ok || !eq(got, want) {
			return append(out, fw.V(sig+"/lift/value-differs", fmt.Sprintf("item %q: the wrapped function gives %#v, the stream delivered %#v", fmt.Sprint(it), want, evs[k].V)))
		}
		k++
	}
	if k != len(evs)-1 || evs[k].K != h.C {
		out = append(out, fw.V(sig+"/lift/no-completion", fmt.Sprintf("trace [%s]", rec.Trace())))
	}
	return out
}

func eqDeep[R any](a, b R) bool { return reflect.DeepEqual(a, b) }
func eqFloat(a, b float64) bool { return a == b || (a != a && b != b) }

func textCases(maxLen int) []plugCase {
	var cases []plugCase
	inputs := allStrings(textAlphabet, maxLen)
	type pair struct {
		name string
		s    func(ro.Observable[string]) ro.Observable[string]
		b    func(ro.Observable[[]byte]) ro.Observable[[]byte]
	}
	pairs := []pair{
		{"CamelCase", rostrings.CamelCase[string](), robytes.CamelCase[[]byte]()},
		{"PascalCase", rostrings.PascalCase[string](), robytes.PascalCase[[]byte]()},
		{"KebabCase", rostrings.KebabCase[string](), robytes.KebabCase[[]byte]()},
		{"SnakeCase", rostrings.SnakeCase[string](), robytes.SnakeCase[[]byte]()},
		{"Capitalize", rostrings.Capitalize[string](), robytes.Capitalize[[]byte]()},
	}
	for _, n := range []int{0, 2, 3, 5} {
		n := n
		pairs = append(pairs, pair{fmt.Sprintf("Ellipsis(%d)", n), rostrings.Ellipsis[string](n), robytes.Ellipsis[[]byte](n)})
	}
	for _, p := range pairs {
		p := p
		cases = append(cases, plugCase{group: "text", name: p.name, run: func() []fw.Violation {
			sig := "plugin/text." + p.name
			var out []fw.Violation
			seenCls := map[string]bool{}
			// chunks of inputs, each run as one stream
			for i := 0; i < len(inputs); i += 64 {
				chunk := inputs[i:minInt(i+64, len(inputs))]
				bs := make([][]byte, len(chunk))
				orig := make([][]byte, len(chunk))
				for j, s := range chunk {
					bs[j] = append(make([]byte, 0, len(s)+8), s...) // spare capacity
					orig[j] = []byte(s)
				}
				recS, srcS := run1(chunk, p.s)
				recB, srcB := run1(bs, p.b)
				out = append(out, contract(sig, recS, srcS)...)
				out = append(out, contract(sig, recB, srcB)...)
				es, eb := recS.Events(), recB.Events()
				for j := range chunk {
					if !bytes.Equal(bs[j], orig[j]) {
						out = append(out, fw.V(sig+"/input-modified/bytes", fmt.Sprintf("input %q was changed to %q", orig[j], bs[j])))
						break
					}
					if j >= len(es) || j >= len(eb) || es[j].K != h.N || eb[j].K != h.N {
						out = append(out, fw.V(sig+"/flavours-agree/missing", fmt.Sprintf("input %q: strings trace [%s], bytes trace [%s]", chunk[j], recS.Trace(), recB.Trace())))
						break
					}
					if string(eb[j].V.([]byte)) != es[j].V.(string) {
						cls := "differ"
						if !isASCII(chunk[j]) {
							cls = "differ-on-non-ascii"
						}
						if !seenCls[cls] {
							seenCls[cls] = true
							out = append(out, fw.V(sig+"/flavours-agree/"+cls, fmt.Sprintf("input %q: the string flavour gives %q, the byte flavour %q", chunk[j], es[j].V, eb[j].V)))
						}
					}
				}
			}
			return out
		}})
	}
	cases = append(cases, plugCase{group: "text", name: "Words", run: func() []fw.Violation {
		sig := "plugin/text.Words"
		var out []fw.Violation
		seenCls := map[string]bool{}
		for i := 0; i < len(inputs); i += 64 {
			chunk := inputs[i:minInt(i+64, len(inputs))]
			bs := make([][]byte, len(chunk))
			for j, s := range chunk {
				bs[j] = []byte(s)
			}
			recS, _ := run1(chunk, rostrings.Words[string]())
			recB, _ := run1(bs, robytes.Words[[]byte]())
			es, eb := recS.Events(), recB.Events()
			for j := range chunk {
				if j >= len(es) || j >= len(eb) || es[j].K != h.N || eb[j].K != h.N {
					return append(out, fw.V(sig+"/flavours-agree/missing", fmt.Sprintf("input %q", chunk[j])))
				}
				ws := es[j].V.([]string)
				wb := eb[j].V.([][]byte)
				same := len(ws) == len(wb)
				for k := 0; same && k < len(ws); k++ {
					same = ws[k] == string(wb[k])
				}
				if !same {
					cls := "differ"
					if !isASCII(chunk[j]) {
						cls = "differ-on-non-ascii"
					}
					if !seenCls[cls] {
						seenCls[cls] = true
						out = append(out, fw.V(sig+"/flavours-agree/"+cls, fmt.Sprintf("input %q: the string flavour gives %q, the byte flavour %q", chunk[j], ws, wb)))
					}
				}
			}
		}
		return out
	}})
	return cases
}

func isASCII(s string) bool {
	for i := 0; i < len(s); i++ {
		if s[i] >= 0x80 {
			return false
		}
	}
	return true
}

func minInt(a, b int) int {
	if a < b {
		return a
	}
	return b
}

func strconvCases(maxLen int) []plugCase {
	alpha := []string{"1", "0", "-", "+", "a", ".", "e", "t", " ", "_", "x", "\""}
	inputs := allStrings(alpha, maxLen)
	inputs = append(inputs, "9223372036854775807", "9223372036854775808", "-9223372036854775808", "-9223372036854775809", "18446744073709551615", "18446744073709551616",
		"1e308", "1e309", "NaN", "Inf", "-Inf", "0x1p-2", "true", "false", "TRUE", "T", "1_000", "0b101", "0o17", "0x1F", "\"a\\n\"", "'x'", "`raw`", "\"\\xff\"")
	var cases []plugCase
	add := func(name string, run func() []fw.Violation) {
		cases = append(cases, plugCase{group: "strconv", name: name, run: run})
	}
	add("Atoi", func() []fw.Violation {
		return chunked(inputs, func(c []string) []fw.Violation {
			return lift("plugin/strconv.Atoi", c, rostrconv.Atoi[string](), func(s string) (int, error) { return strconv.Atoi(s) }, eqDeep[int])
		})
	})
	for _, base := range []int{0, 2, 10, 16} {
		for _, bits := range []int{8, 64} {
			base, bits := base, bits
			add(fmt.Sprintf("ParseInt(%d,%d)", base, bits), func() []fw.Violation {
				return chunked(inputs, func(c []string) []fw.Violation {
					return lift(fmt.Sprintf("plugin/strconv.ParseInt(%d,%d)", base, bits), c, rostrconv.ParseInt[string](base, bits), func(s string) (int64, error) { return strconv.ParseInt(s, base, bits) }, eqDeep[int64])
				})
			})
			add(fmt.Sprintf("ParseUint(%d,%d)", base, bits), func() []fw.Violation {
				return chunked(inputs, func(c []string) []fw.Violation {
					return lift(fmt.Sprintf("plugin/strconv.ParseUint(%d,%d)", base, bits), c, rostrconv.ParseUint[string](base, bits), func(s string) (uint64, error) { return strconv.ParseUint(s, base, bits) }, eqDeep[uint64])
				})
			})
		}
	}
	for _, bits := range []int{32, 64} {
		bits := bits
		add(fmt.Sprintf("ParseFloat(%d)", bits), func() []fw.Violation {
			return chunked(inputs, func(c []string) []fw.Violation {
				return lift(fmt.Sprintf("plugin/strconv.ParseFloat(%d)", bits), c, rostrconv.ParseFloat[string](bits), func(s string) (float64, error) { return strconv.ParseFloat(s, bits) }, eqFloat)
			})
		})
	}
	add("ParseBool", func() []fw.Violation {
		return chunked(inputs, func(c []string) []fw.Violation {
			return lift("plugin/strconv.ParseBool", c, rostrconv.ParseBool[string](), func(s string) (bool, error) { return strconv.ParseBool(s) }, eqDeep[bool])
		})
	})
	add("Unquote", func() []fw.Violation {
		return chunked(inputs, func(c []string) []fw.Violation {
			return lift("plugin/strconv.Unquote", c, rostrconv.Unquote(), func(s string) (string, error) { return strconv.Unquote(s) }, eqDeep[string])
		})
	})
	add("Quote", func() []fw.Violation {
		return chunked(allStrings(textAlphabet, maxLen), func(c []string) []fw.Violation {
			return lift("plugin/strconv.Quote", c, rostrconv.Quote(), func(s string) (string, error) { return strconv.Quote(s), nil }, eqDeep[string])
		})
	})
	ints := []int64{0, 1, -1, 7, 255, -256, 1 << 31, -(1 << 31), 1<<63 - 1, -(1 << 63)}
	for _, base := range []int{2, 10, 16, 36} {
		base := base
		add(fmt.Sprintf("FormatInt(%d)", base), func() []fw.Violation {
			return lift(fmt.Sprintf("plugin/strconv.FormatInt(%d)", base), ints, rostrconv.FormatInt[string](base), func(v int64) (string, error) { return strconv.FormatInt(v, base), nil }, eqDeep[string])
		})
		add(fmt.Sprintf("FormatUint(%d)", base), func() []fw.Violation {
			us := []uint64{0, 1, 255, 1 << 63, 1<<64 - 1}
			return lift(fmt.Sprintf("plugin/strconv.FormatUint(%d)", base), us, rostrconv.FormatUint[string](base), func(v uint64) (string, error) { return strconv.FormatUint(v, base), nil }, eqDeep[string])
		})
	}
	add("Itoa", func() []fw.Violation {
		return lift("plugin/strconv.Itoa", []int{0, 1, -1, 1 << 40, -(1 << 40)}, rostrconv.Itoa(), func(v int) (string, error) { return strconv.Itoa(v), nil }, eqDeep[string])
	})
	add("FormatBool", func() []fw.Violation {
		return lift("plugin/strconv.FormatBool", []bool{true, false}, rostrconv.FormatBool(), func(v bool) (string, error) { return strconv.FormatBool(v), nil }, eqDeep[string])
	})
	floats := []float64{0, -0.0, 1.5, -2.25, 1e21, 1e-7, math.Inf(1), math.Inf(-1), math.NaN(), 0.1}
	for _, mt := range []byte{'f', 'e', 'g'} {
		for _, prec := range []int{-1, 0, 2} {
			mt, prec := mt, prec
			add(fmt.Sprintf("FormatFloat(%c,%d)", mt, prec), func() []fw.Violation {
				return lift(fmt.Sprintf("plugin/strconv.FormatFloat(%c,%d)", mt, prec), floats, rostrconv.FormatFloat(mt, prec, 64), func(v float64) (string, error) { return strconv.FormatFloat(v, mt, prec, 64), nil }, eqDeep[string])
			})
		}
	}
	add("QuoteRune", func() []fw.Violation {
		return lift("plugin/strconv.QuoteRune", []rune{'a', '\n', 'é', '世', 0xFFFD, 0x10FFFF, -1}, rostrconv.QuoteRune(), func(v rune) (string, error) { return strconv.QuoteRune(v), nil }, eqDeep[string])
	})
	return cases
}

func chunked[T any](inputs []T, f func(chunk []T) []fw.Violation) []fw.Violation {
	// one stream per input (a failing item ends its stream), in batches to keep the trace small
	for _, in := range inputs {
		if v := f([]T{in}); len(v) > 0 {
			return v
		}
	}
	// and one long stream of the inputs that do not fail is covered by the per-item runs already
	return nil
}

func regexpCases(maxLen int) []plugCase {
	pats := []string{`a+`, `(a)(b)?`, ``, `^$`, `b*`, `(?i)A`, `[^a]`}
	inputs := allStrings([]string{"a", "b", "A", "é"}, maxLen)
	var cases []plugCase
	for _, ps := range pats {
		re := regexp.MustCompile(ps)
		nm := func(op string) string { return fmt.Sprintf("regexp.%s(%q)", op, ps) }
		bs := make([][]byte, len(inputs))
		for i, s := range inputs {
			bs[i] = []byte(s)
		}
		cases = append(cases,
			plugCase{"regexp", nm("MatchString"), func() []fw.Violation {
				return lift("plugin/"+nm("MatchString"), inputs, roregexp.MatchString[string](re), func(s string) (bool, error) { return re.MatchString(s), nil }, eqDeep[bool])
			}},
			plugCase{"regexp", nm("Match"), func() []fw.Violation {
				return lift("plugin/"+nm("Match"), bs, roregexp.Match[[]byte](re), func(s []byte) (bool, error) { return re.Match(s), nil }, eqDeep[bool])
			}},
			plugCase{"regexp", nm("FindString"), func() []fw.Violation {
				return lift("plugin/"+nm("FindString"), inputs, roregexp.FindString[string](re), func(s string) (string, error) { return re.FindString(s), nil }, eqDeep[string])
			}},
			plugCase{"regexp", nm("Find"), func() []fw.Violation {
				return lift("plugin/"+nm("Find"), bs, roregexp.Find[[]byte](re), func(s []byte) ([]byte, error) { return re.Find(s), nil }, func(a, b []byte) bool { return bytes.Equal(a, b) })
			}},
			plugCase{"regexp", nm("FindStringSubmatch"), func() []fw.Violation {
				return lift("plugin/"+nm("FindStringSubmatch"), inputs, roregexp.FindStringSubmatch[string](re), func(s string) ([]string, error) { return re.FindStringSubmatch(s), nil }, eqDeep[[]string])
			}},
			plugCase{"regexp", nm("FindSubmatch"), func() []fw.Violation {
				return lift("plugin/"+nm("FindSubmatch"), bs, roregexp.FindSubmatch[[]byte](re), func(s []byte) ([][]byte, error) { return re.FindSubmatch(s), nil }, eqDeep[[][]byte])
			}},
			plugCase{"regexp", nm("ReplaceAllString"), func() []fw.Violation {
				return lift("plugin/"+nm("ReplaceAllString"), inputs, roregexp.ReplaceAllString[string](re, "<$0>"), func(s string) (string, error) { return re.ReplaceAllString(s, "<$0>"), nil }, eqDeep[string])
			}},
			plugCase{"regexp", nm("ReplaceAll"), func() []fw.Violation {
				return lift("plugin/"+nm("ReplaceAll"), bs, roregexp.ReplaceAll[[]byte](re, []byte("<$0>")), func(s []byte) ([]byte, error) { return re.ReplaceAll(s, []byte("<$0>")), nil }, func(a, b []byte) bool { return bytes.Equal(a, b) })
			}},
		)
		for _, n := range []int{-1, 0, 1, 2} {
			n := n
			cases = append(cases,
				plugCase{"regexp", nm(fmt.Sprintf("FindAllString,%d", n)), func() []fw.Violation {
					return lift("plugin/"+nm(fmt.Sprintf("FindAllString,%d", n)), inputs, roregexp.FindAllString[string](re, n), func(s string) ([]string, error) { return re.FindAllString(s, n), nil }, eqDeep[[]string])
				}},
				plugCase{"regexp", nm(fmt.Sprintf("FindAll,%d", n)), func() []fw.Violation {
					return lift("plugin/"+nm(fmt.Sprintf("FindAll,%d", n)), bs, roregexp.FindAll[[]byte](re, n), func(s []byte) ([][]byte, error) { return re.FindAll(s, n), nil }, eqDeep[[][]byte])
				}},
				plugCase{"regexp", nm(fmt.Sprintf("FindAllStringSubmatch,%d", n)), func() []fw.Violation {
					return lift("plugin/"+nm(fmt.Sprintf("FindAllStringSubmatch,%d", n)), inputs, roregexp.FindAllStringSubmatch[string](re, n), func(s string) ([][]string, error) { return re.FindAllStringSubmatch(s, n), nil }, eqDeep[[][]string])
				}},
				plugCase{"regexp", nm(fmt.Sprintf("FindAllSubmatch,%d", n)), func() []fw.Violation {
					return lift("plugin/"+nm(fmt.Sprintf("FindAllSubmatch,%d", n)), bs, roregexp.FindAllSubmatch[[]byte](re, n), func(s []byte) ([][][]byte, error) { return re.FindAllSubmatch(s, n), nil }, eqDeep[[][][]byte])
				}},
			)
		}
		// filters
		cases = append(cases, plugCase{"regexp", nm("FilterMatchString"), func() []fw.Violation {
			rec, src := run1(inputs, roregexp.FilterMatchString[string](re))
			out := contract("plugin/"+nm("FilterMatchString"), rec, src)
			var want []interface{}
			for _, s := range inputs {
				if re.MatchString(s) {
					want = append(want, s)
				}
			}
			if fmt.Sprint(rec.Values()) != fmt.Sprint(want) {
				out = append(out, fw.V("plugin/"+nm("FilterMatchString")+"/lift/value-differs", fmt.Sprintf("delivered %q, the matching inputs are %q", rec.Values(), want)))
			}
			return out
		}})
	}
	return cases
}

func base64Cases() []plugCase {
	var cases []plugCase
	encs := map[string]*base64.Encoding{"Std": base64.StdEncoding, "URL": base64.URLEncoding, "RawStd": base64.RawStdEncoding, "RawURL": base64.RawURLEncoding}
	raw := allStrings([]string{"\x00", "a", "\xff", "\xfb"}, 4)
	for name, enc := range encs {
		name, enc := name, enc
		bs := make([][]byte, len(raw))
		for i, s := range raw {
			bs[i] = []byte(s)
		}
		cases = append(cases, plugCase{"base64", "Encode(" + name + ")", func() []fw.Violation {
			return lift("plugin/base64.Encode("+name+")", bs, robase64.Encode[[]byte](enc), func(b []byte) (string, error) { return enc.EncodeToString(b), nil }, eqDeep[string])
		}})
		cases = append(cases, plugCase{"base64", "Encode|Decode(" + name + ")", func() []fw.Violation {
			rt := func(o ro.Observable[[]byte]) ro.Observable[[]byte] {
				return robase64.Decode[string](enc)(robase64.Encode[[]byte](enc)(o))
			}
			return lift("plugin/base64.roundtrip("+name+")", bs, rt, func(b []byte) ([]byte, error) { return b, nil }, func(a, b []byte) bool { return bytes.Equal(a, b) })
		}})
		texts := allStrings([]string{"A", "/", "_", "=", "-", "+", "!"}, 4)
		cases = append(cases, plugCase{"base64", "Decode(" + name + ")", func() []fw.Violation {
			return chunked(texts, func(c []string) []fw.Violation {
				return lift("plugin/base64.Decode("+name+")", c, robase64.Decode[string](enc), func(s string) ([]byte, error) { return enc.DecodeString(s) }, func(a, b []byte) bool { return bytes.Equal(a, b) })
			})
		}})
	}
	return cases
}

type payload struct {
	Key int
	Tag int
}

func sortCases(tier string) []plugCase {
	var cases []plugCase
	cmp := func(a, b payload) int { return a.Key - b.Key }
	check := func(name string, op func(ro.Observable[payload]) ro.Observable[payload], stable bool, seq []payload) []fw.Violation {
		rec, src := run1(seq, op)
		sig := "plugin/sort." + name
		out := contract(sig, rec, src)
		var got []payload
		for _, v := range rec.Values() {
			got = append(got, v.(payload))
		}
		if len(got) != len(seq) {
			return append(out, fw.V(sig+"/permutation/length", fmt.Sprintf("input %v, output %v", seq, got)))
		}
		for i := 1; i < len(got); i++ {
			if got[i-1].Key > got[i].Key {
				return append(out, fw.V(sig+"/sorted/order", fmt.Sprintf("input %v, output %v", seq, got)))
			}
		}
		seen := map[payload]int{}
		for _, p := range seq {
			seen[p]++
		}
		for _, p := range got {
			seen[p]--
		}
		for _, n := range seen {
			if n != 0 {
				return append(out, fw.V(sig+"/permutation/elements", fmt.Sprintf("input %v, output %v", seq, got)))
			}
		}
		if stable {
			for i := 1; i < len(got); i++ {
				if got[i-1].Key == got[i].Key && got[i-1].Tag > got[i].Tag {
					return append(out, fw.V(sig+"/stable/equal-keys-reordered", fmt.Sprintf("%d elements with 2 keys: elements with equal keys left in another order than they arrived (tags %d before %d)", len(seq), got[i-1].Tag, got[i].Tag)))
				}
			}
		}
		return out
	}
	ops := []struct {
		name   string
		op     func(ro.Observable[payload]) ro.Observable[payload]
		stable bool
	}{
		{"SortFunc", rosort.SortFunc(cmp), false},
		{"SortStableFunc", rosort.SortStableFunc(cmp), true},
	}
	for _, o := range ops {
		o := o
		cases = append(cases, plugCase{"sort", o.name + "/short", func() []fw.Violation {
			// all sequences of length <= 5 over 3 keys
			var rec func(cur []payload) []fw.Violation
			rec = func(cur []payload) []fw.Violation {
				if v := check(o.name, o.op, o.stable, cur); len(v) > 0 {
					return v
				}
				if len(cur) == 5 {
					return nil
				}
				for k := 0; k < 3; k++ {
					if v := rec(append(append([]payload{}, cur...), payload{k, len(cur)})); len(v) > 0 {
						return v
					}
				}
				return nil
			}
			return rec(nil)
		}})
		n := 13 // beyond the 12-element insertion-sort threshold of sort.Slice
		if tier == "thorough" {
			n = 16
		}
		cases = append(cases, plugCase{"sort", fmt.Sprintf("%s/two-keys-%d", o.name, n), func() []fw.Violation {
			for mask := 0; mask < 1<<n; mask++ {
				seq := make([]payload, n)
				for i := range seq {
					seq[i] = payload{(mask >> i) & 1, i}
				}
				if v := check(o.name, o.op, o.stable, seq); len(v) > 0 {
					return v
				}
			}
			return nil
		}})
	}
	cases = append(cases, plugCase{"sort", "Sort(int)", func() []fw.Violation {
		var rec func(cur []int) []fw.Violation
		rec = func(cur []int) []fw.Violation {
			r, s := run1(cur, rosort.Sort(func(a, b int) int { return a - b }))
			out := contract("plugin/sort.Sort", r, s)
			want := append([]int{}, cur...)
			sort.Ints(want)
			var got []int
			for _, v := range r.Values() {
				got = append(got, v.(int))
			}
			if fmt.Sprint(got) != fmt.Sprint(want) && len(want) > 0 {
				return append(out, fw.V("plugin/sort.Sort/sorted/order", fmt.Sprintf("input %v, output %v", cur, got)))
			}
			if len(out) > 0 || len(cur) == 5 {
				return out
			}
			for k := 0; k < 3; k++ {
				if v := rec(append(append([]int{}, cur...), k)); len(v) > 0 {
					return v
				}
			}
			return nil
		}
		return rec(nil)
	}})
	return cases
}

// chunkReader answers Read calls with the given chunk sizes (the environment's short reads), then EOF
// or an error; withDataAndEOF returns the last chunk together with io.EOF, as io.Reader allows.
type chunkReader struct {
	data        []byte
	sizes       []int
	pos, idx    int
	failAt      int // read index at which an error is returned (-1: never)
	eofWithData bool
}

var errRead = errors.New("verif: read error")

func (r *chunkReader) Read(p []byte) (int, error) {
	if r.failAt >= 0 && r.idx == r.failAt {
		r.idx++
		return 0, errRead
	}
	if r.pos >= len(r.data) {
		return 0, io.EOF
	}
	n := len(r.data) - r.pos
	if r.idx < len(r.sizes) && r.sizes[r.idx] < n {
		n = r.sizes[r.idx]
	}
	if n > len(p) {
		n = len(p)
	}
	copy(p, r.data[r.pos:r.pos+n])
	r.pos += n
	r.idx++
	if r.eofWithData && r.pos >= len(r.data) {
		return n, io.EOF
	}
	return n, nil
}

func compositions(n int) [][]int {
	if n == 0 {
		return [][]int{{}}
	}
	var out [][]int
	for first := 1; first <= n; first++ {
		for _, rest := range compositions(n - first) {
			out = append(out, append([]int{first}, rest...))
		}
	}
	return out
}

func stdioCases() []plugCase {
	var cases []plugCase
	readAll := func(sig string, rd *chunkReader, input []byte, expectErr bool) []fw.Violation {
		rec := h.NewRec("out")
		var snaps [][]byte
		rec.Hook = func(r *h.Rec, idx int, e h.Ev) {
			if e.K == h.N {
				snaps = append(snaps, append([]byte{}, e.V.([]byte)...))
			}
		}
		sub := rostdio.NewIOReader(rd).Subscribe(h.Observer[[]byte](rec))
		_ = sub
		var out []fw.Violation
		if g := h.GrammarError(rec.Events()); g != "" {
			out = append(out, fw.V(sig+"/grammar/broken", g))
		}
		var cat, catNow []byte
		i := 0
		for _, e := range rec.Events() {
			if e.K == h.N {
				cat = append(cat, snaps[i]...)
				catNow = append(catNow, e.V.([]byte)...)
				if !bytes.Equal(snaps[i], e.V.([]byte)) && len(out) == 0 {
					out = append(out, fw.V(sig+"/delivered-chunk-modified/aliasing", fmt.Sprintf("input of %d bytes read in chunks %v: chunk #%d was %q when delivered and reads %q after the run", len(input), rd.sizes, i, trunc(snaps[i]), trunc(e.V.([]byte)))))
				}
				i++
			}
		}
		evs := rec.Events()
		last := h.Ev{}
		if len(evs) > 0 {
			last = evs[len(evs)-1]
		}
		if expectErr {
			if last.K != h.E || !errors.Is(last.Err, errRead) {
				out = append(out, fw.V(sig+"/read-error-not-reported/terminal", fmt.Sprintf("the reader failed at read #%d; trace ends with %s", rd.failAt, last.Short())))
			}
			if !bytes.HasPrefix(input, cat) {
				out = append(out, fw.V(sig+"/concatenation/not-a-prefix", fmt.Sprintf("chunks %q, input %q", trunc(cat), trunc(input))))
			}
			return out
		}
		if last.K != h.C {
			out = append(out, fw.V(sig+"/no-completion/terminal", fmt.Sprintf("trace ends with %s", last.Short())))
		}
		if !bytes.Equal(cat, input) {
			cls := "differs"
			if bytes.HasPrefix(input, cat) {
				cls = "data-lost"
			}
			out = append(out, fw.V(sig+"/concatenation/"+cls, fmt.Sprintf("input of %d bytes read in chunks %v (eof with data: %v): the delivered chunks add up to %d bytes %q", len(input), rd.sizes, rd.eofWithData, len(cat), trunc(cat))))
		}
		return out
	}
	cases = append(cases, plugCase{"stdio", "NewIOReader/all-chunkings-of-6-bytes", func() []fw.Violation {
		input := []byte("abcdef")
		for _, sizes := range compositions(6) {
			for _, ewd := range []bool{false, true} {
				if v := readAll("plugin/stdio.NewIOReader", &chunkReader{data: input, sizes: sizes, failAt: -1, eofWithData: ewd}, input, false); len(v) > 0 {
					return v
				}
			}
			for f := 0; f <= len(sizes); f++ {
				if v := readAll("plugin/stdio.NewIOReader", &chunkReader{data: input, sizes: sizes, failAt: f}, input, true); len(v) > 0 {
					return v
				}
			}
		}
		return nil
	}})
	cases = append(cases, plugCase{"stdio", "NewIOReader/sizes-around-the-buffer", func() []fw.Violation {
		for _, n := range []int{0, 1, 1023, 1024, 1025, 2048, 2049} {
			input := make([]byte, n)
			for i := range input {
				input[i] = byte('a' + i/1024)
			}
			if v := readAll("plugin/stdio.NewIOReader", &chunkReader{data: input, failAt: -1}, input, false); len(v) > 0 {
				return v
			}
		}
		return nil
	}})
	cases = append(cases, plugCase{"stdio", "NewIOReaderLine", func() []fw.Violation {
		for _, text := range allStrings([]string{"a", "\n", "\r\n", "b"}, 4) {
			for _, sizes := range [][]int{nil, {1, 1, 1, 1, 1, 1, 1, 1}} {
				rec := h.NewRec("out")
				rostdio.NewIOReaderLine(&chunkReader{data: []byte(text), sizes: sizes, failAt: -1}).Subscribe(h.Observer[[]byte](rec))
				var got []string
				for _, v := range rec.Values() {
					got = append(got, string(v.([]byte)))
				}
				var want []string
				if text != "" {
					want = strings.Split(strings.TrimSuffix(text, "\n"), "\n")
					for i := range want {
						want[i] = strings.TrimSuffix(want[i], "\r")
					}
				}
				if fmt.Sprintf("%q", got) != fmt.Sprintf("%q", want) {
					return []fw.Violation{fw.V("plugin/stdio.NewIOReaderLine/lines/differ", fmt.Sprintf("input %q: emitted %q, the lines are %q", text, got, want))}
				}
			}
		}
		return nil
	}})
	cases = append(cases, plugCase{"stdio", "NewIOReaderLine(long lines)", func() []fw.Violation {
		// one line whose length crosses the buffer sizes readers use (bufio's 4096, a Scanner's 64 KiB
		// token limit), between two short lines; a long line may arrive in several chunks
		for _, n := range []int{4095, 4096, 4097, 8192, 65535, 65536, 65537, 200000} {
			long := bytes.Repeat([]byte("x"), n)
			long[n/2] = 'y'
			text := "first\n" + string(long) + "\nlast\n"
			rec := h.NewRec("out")
			rostdio.NewIOReaderLine(&chunkReader{data: []byte(text), failAt: -1}).Subscribe(h.Observer[[]byte](rec))
			evs := rec.Events()
			if len(evs) == 0 || evs[len(evs)-1].K != h.C {
				last := "nothing"
				if len(evs) > 0 {
					last = evs[len(evs)-1].Short()
					if evs[len(evs)-1].K == h.E {
						last = "Error(" + evs[len(evs)-1].Err.Error() + ")"
					}
				}
				return []fw.Violation{fw.V("plugin/stdio.NewIOReaderLine/long-line/not-completed", fmt.Sprintf("a line of %d bytes between two short lines: the stream ended with %s after %d chunks", n, last, len(rec.Values())))}
			}
			var all []byte
			vals := rec.Values()
			for _, v := range vals {
				all = append(all, v.([]byte)...)
			}
			if string(all) != "first"+string(long)+"last" || len(vals) < 3 || string(vals[0].([]byte)) != "first" || string(vals[len(vals)-1].([]byte)) != "last" {
				return []fw.Violation{fw.V("plugin/stdio.NewIOReaderLine/long-line/content-differs", fmt.Sprintf("a line of %d bytes between two short lines: %d chunks, %d bytes in total, first %q last %q", n, len(vals), len(all), trunc(vals[0].([]byte)), trunc(vals[len(vals)-1].([]byte))))}
			}
		}
		return nil
	}})
	cases = append(cases, plugCase{"stdio", "NewIOWriter", func() []fw.Violation {
		var buf bytes.Buffer
		chunks := [][]byte{[]byte("ab"), {}, []byte("c"), []byte("\xff\x00")}
		rec, src := run1(chunks, rostdio.NewIOWriter(&buf))
		out := contract("plugin/stdio.NewIOWriter", rec, src)
		if buf.String() != "abc\xff\x00" {
			out = append(out, fw.V("plugin/stdio.NewIOWriter/written/differs", fmt.Sprintf("wrote %q", buf.String())))
		}
		total := 0
		for _, v := range rec.Values() {
			total += v.(int)
		}
		if total != buf.Len() {
			out = append(out, fw.V("plugin/stdio.NewIOWriter/count/differs", fmt.Sprintf("emitted count %d, bytes written %d", total, buf.Len())))
		}
		return out
	}})
	return cases
}

func trunc(b []byte) string {
	if len(b) > 24 {
		return string(b[:24]) + "..."
	}
	return string(b)
}

type jsonVal struct {
	A int               `json:"a"`
	S string            `json:"s"`
	L []int             `json:"l"`
	M map[string]string `json:"m"`
	P *jsonVal          `json:"p"`
}

func valueFamily() []jsonVal {
	base := []jsonVal{{}, {A: 1}, {S: "é\xff"}, {L: []int{}}, {L: []int{1, 2}}, {M: map[string]string{"k": "v"}}}
	out := append([]jsonVal{}, base...)
	for i := range base {
		b := base[i]
		out = append(out, jsonVal{A: 7, P: &b})
	}
	return out
}

func encodingCases() []plugCase {
	var cases []plugCase
	vals := valueFamily()
	cases = append(cases, plugCase{"json", "Marshal|Unmarshal", func() []fw.Violation {
		rt := func(o ro.Observable[jsonVal]) ro.Observable[jsonVal] {
			return rojson.Unmarshal[jsonVal]()(rojson.Marshal[jsonVal]()(o))
		}
		return lift("plugin/json.roundtrip", vals, rt, func(v jsonVal) (jsonVal, error) {
			// the wrapped functions' own round trip (invalid UTF-8 is replaced, nil/empty collections keep their JSON form)
			var back jsonVal
			b, err := jsonMarshal(v)
			if err != nil {
				return back, err
			}
			err = jsonUnmarshal(b, &back)
			return back, err
		}, eqDeep[jsonVal])
	}})
	cases = append(cases, plugCase{"json", "Unmarshal(malformed)", func() []fw.Violation {
		return chunked([][]byte{[]byte(`{"a":1}`), []byte(`{"a":`), []byte(``), []byte(`nul`), []byte(`{"a":"x"}`), []byte(`[]`)}, func(c [][]byte) []fw.Violation {
			return lift("plugin/json.Unmarshal", c, rojson.Unmarshal[jsonVal](), func(b []byte) (jsonVal, error) {
				var v jsonVal
				err := jsonUnmarshal(b, &v)
				return v, err
			}, eqDeep[jsonVal])
		})
	}})
	cases = append(cases, plugCase{"gob", "Encode|Decode", func() []fw.Violation {
		type gv struct {
			A int
			S string
			L []int
		}
		gvals := []gv{{}, {A: 1}, {S: "é\xff"}, {L: []int{1, 2}}}
		rt := func(o ro.Observable[gv]) ro.Observable[gv] { return rogob.Decode[gv]()(rogob.Encode[gv]()(o)) }
		return lift("plugin/gob.roundtrip", gvals, rt, func(v gv) (gv, error) { return v, nil }, eqDeep[gv])
	}})
	cases = append(cases, plugCase{"gob", "Decode(malformed)", func() []fw.Violation {
		return chunked([][]byte{{}, {0x01}, {0xff, 0xff, 0xff}}, func(c [][]byte) []fw.Violation {
			rec, src := run1(c, rogob.Decode[int]())
			out := contract("plugin/gob.Decode", rec, src)
			evs := rec.Events()
			if len(evs) == 0 || evs[len(evs)-1].K != h.E {
				out = append(out, fw.V("plugin/gob.Decode/lift/error-not-reported", fmt.Sprintf("malformed input %v: trace [%s]", c, rec.Trace())))
			}
			return out
		})
	}})
	cases = append(cases, plugCase{"csv", "NewCSVReader", func() []fw.Violation {
		for _, text := range []string{"", "a,b\n", "a,b\nc,d\n", "a,\"b\nc\"\n", "a,b\nc\n", "\"unterminated\n", "é,世\n"} {
			rec := h.NewRec("out")
			rocsv.NewCSVReader(csv.NewReader(strings.NewReader(text))).Subscribe(h.Observer[[]string](rec))
			want, wantErr := csv.NewReader(strings.NewReader(text)).ReadAll()
			var got [][]string
			for _, v := range rec.Values() {
				got = append(got, v.([]string))
			}
			evs := rec.Events()
			if wantErr != nil {
				if len(evs) == 0 || evs[len(evs)-1].K != h.E {
					return []fw.Violation{fw.V("plugin/csv.NewCSVReader/lift/error-not-reported", fmt.Sprintf("input %q: csv fails with %v, trace [%s]", text, wantErr, rec.Trace()))}
				}
				continue
			}
			if fmt.Sprintf("%q", got) != fmt.Sprintf("%q", want) {
				return []fw.Violation{fw.V("plugin/csv.NewCSVReader/lift/value-differs", fmt.Sprintf("input %q: emitted %q, encoding/csv reads %q", text, got, want))}
			}
			if len(evs) == 0 || evs[len(evs)-1].K != h.C {
				return []fw.Violation{fw.V("plugin/csv.NewCSVReader/lift/no-completion", fmt.Sprintf("input %q: trace [%s]", text, rec.Trace()))}
			}
		}
		return nil
	}})
	cases = append(cases, plugCase{"csv", "NewCSVWriter", func() []fw.Violation {
		var buf, ref bytes.Buffer
		rows := [][]string{{"a", "b"}, {"c,d", "e\"f"}, {}, {"é"}}
		rec, src := run1(rows, rocsv.NewCSVWriter(csv.NewWriter(&buf)))
		w := csv.NewWriter(&ref)
		w.WriteAll(rows)
		out := contract("plugin/csv.NewCSVWriter", rec, src)
		if buf.String() != ref.String() {
			out = append(out, fw.V("plugin/csv.NewCSVWriter/written/differs", fmt.Sprintf("wrote %q, encoding/csv writes %q", buf.String(), ref.String())))
		}
		return out
	}})
	cases = append(cases, plugCase{"csv", "NewCSVWriter(source fails)", func() []fw.Violation {
		// the rows written before the source failed must have reached the underlying writer by the time the
		// stream has ended (the sink reported them as written), for k rows and for more than one buffer's worth
		for _, k := range []int{1, 2, 3, 400} {
			var buf, ref bytes.Buffer
			var word []h.Ev
			var rows [][]string
			for i := 0; i < k; i++ {
				row := []string{fmt.Sprint("row", i), "0123456789abcdef"}
				rows = append(rows, row)
				word = append(word, h.Nx(row))
			}
			word = append(word, h.Er(h.ErrSrc))
			rec := h.NewRec("out")
			rocsv.NewCSVWriter(csv.NewWriter(&buf))(h.Script[[]string](h.NewSrc("rows"), h.Unsafe, word)).Subscribe(h.Observer[int](rec))
			w := csv.NewWriter(&ref)
			w.WriteAll(rows)
			evs := rec.Events()
			if len(evs) == 0 || evs[len(evs)-1].K != h.E {
				return []fw.Violation{fw.V("plugin/csv.NewCSVWriter/source-error/not-propagated", fmt.Sprintf("%d rows then an error: trace [%s]", k, rec.Trace()))}
			}
			if buf.String() != ref.String() {
				return []fw.Violation{fw.V("plugin/csv.NewCSVWriter/source-error/rows-not-flushed", fmt.Sprintf("%d rows then an error: %d bytes reached the writer, encoding/csv writes %d for those rows (trace [%s])", k, buf.Len(), ref.Len(), rec.Trace()))}
			}
		}
		return nil
	}})
	return cases
}

func timeTemplateCases() []plugCase {
	var cases []plugCase
	base := time.Date(2024, 2, 29, 23, 59, 59, 999, time.UTC)
	ny := time.FixedZone("X", -5*3600)
	times := []time.Time{{}, base, base.In(ny), time.Unix(0, 0).UTC(), time.Date(1999, 12, 31, 0, 0, 0, 0, ny)}
	// a grid over the days around every offset change of 2024 in zones with daylight saving (northern,
	// southern, a 30-minute shift), one without, and a fixed offset: every 30 minutes plus one odd instant
	for _, zn := range []string{"Europe/Paris", "America/New_York", "Australia/Sydney", "Australia/Lord_Howe", "Asia/Tokyo", "America/Sao_Paulo"} {
		loc, err := time.LoadLocation(zn) // time/tzdata is linked in: no dependency on the host
		if err != nil {
			panic(err)
		}
		for _, day := range [][3]int{{2024, 3, 9}, {2024, 3, 30}, {2024, 4, 6}, {2024, 10, 5}, {2024, 10, 26}, {2024, 11, 2}, {2024, 12, 31}, {2024, 2, 28}} {
			start := time.Date(day[0], time.Month(day[1]), day[2], 0, 0, 0, 0, time.UTC)
			for k := 0; k < 3*48; k++ {
				times = append(times, start.Add(time.Duration(k)*30*time.Minute).In(loc))
			}
			times = append(times, start.Add(26*time.Hour+17*time.Minute+3*time.Second+5).In(loc))
		}
	}
	eqT := func(a, b time.Time) bool { return a.Equal(b) && a.Location().String() == b.Location().String() }
	cases = append(cases,
		plugCase{"time", "Add", func() []fw.Violation {
			return lift("plugin/time.Add", times, rotime.Add(36*time.Hour), func(t time.Time) (time.Time, error) { return t.Add(36 * time.Hour), nil }, eqT)
		}},
		plugCase{"time", "AddDate", func() []fw.Violation {
			return lift("plugin/time.AddDate", times, rotime.AddDate(1, 1, 1), func(t time.Time) (time.Time, error) { return t.AddDate(1, 1, 1), nil }, eqT)
		}},
		plugCase{"time", "In", func() []fw.Violation {
			return lift("plugin/time.In", times, rotime.In(ny), func(t time.Time) (time.Time, error) { return t.In(ny), nil }, eqT)
		}},
		plugCase{"time", "StartOfDay", func() []fw.Violation {
			return lift("plugin/time.StartOfDay", times, rotime.StartOfDay(), func(t time.Time) (time.Time, error) {
				y, m, d := t.Date()
				return time.Date(y, m, d, 0, 0, 0, 0, t.Location()), nil
			}, eqT)
		}},
	)
	for _, layout := range []string{time.RFC3339, time.Kitchen, "2006-01-02", ""} {
		layout := layout
		cases = append(cases,
			plugCase{"time", "Format(" + layout + ")", func() []fw.Violation {
				return lift("plugin/time.Format("+layout+")", times, rotime.Format(layout), func(t time.Time) (string, error) { return t.Format(layout), nil }, eqDeep[string])
			}},
			plugCase{"time", "Parse(" + layout + ")", func() []fw.Violation {
				ins := []string{"", "2024-02-29T23:59:59Z", "2024-02-30", "2024-02-29", "3:04PM", "garbage", "2024-02-29T23:59:59+01:00"}
				return chunked(ins, func(c []string) []fw.Violation {
					return lift("plugin/time.Parse("+layout+")", c, rotime.Parse[string](layout), func(s string) (time.Time, error) { return time.Parse(layout, s) }, eqT)
				})
			}},
			plugCase{"time", "ParseInLocation(" + layout + ")", func() []fw.Violation {
				ins := []string{"", "2024-02-29", "3:04PM", "garbage"}
				return chunked(ins, func(c []string) []fw.Violation {
					return lift("plugin/time.ParseInLocation("+layout+")", c, rotime.ParseInLocation[string](layout, ny), func(s string) (time.Time, error) { return time.ParseInLocation(layout, s, ny) }, eqT)
				})
			}},
		)
	}
	type td struct {
		Name string
		N    int
	}
	cases = append(cases, plugCase{"template", "TextTemplate", func() []fw.Violation {
		items := []td{{"a", 1}, {"<b>", 0}, {"", -1}}
		for _, tpl := range []string{"hi {{.Name}} {{.N}}", "{{if .N}}y{{else}}n{{end}}", "", "{{.Missing}}"} {
			rec, src := run1(items, rotemplate.TextTemplate[td](tpl))
			out := contract("plugin/template.TextTemplate", rec, src)
			k := 0
			evs := rec.Events()
			for _, it := range items {
				want, err := execText(tpl, it)
				if k >= len(evs) {
					return append(out, fw.V("plugin/template.TextTemplate/lift/output-missing", fmt.Sprintf("template %q", tpl)))
				}
				if err != nil {
					if evs[k].K != h.E {
						return append(out, fw.V("plugin/template.TextTemplate/lift/error-not-reported", fmt.Sprintf("template %q on %+v fails with %v; stream delivered %s", tpl, it, err, evs[k].Short())))
					}
					break
				}
				if evs[k].K != h.N || evs[k].V.(string) != want {
					return append(out, fw.V("plugin/template.TextTemplate/lift/value-differs", fmt.Sprintf("template %q on %+v: text/template gives %q, stream delivered %v", tpl, it, want, evs[k].V)))
				}
				k++
			}
			if len(out) > 0 {
				return out
			}
		}
		return nil
	}})
	cases = append(cases, plugCase{"template", "HTMLTemplate", func() []fw.Violation {
		items := []td{{"a", 1}, {"<b>&", 0}}
		tpl := "<p>{{.Name}}</p>"
		rec, src := run1(items, rotemplate.HTMLTemplate[td](tpl))
		out := contract("plugin/template.HTMLTemplate", rec, src)
		for i, it := range items {
			want, _ := execHTML(tpl, it)
			if i >= len(rec.Values()) || rec.Values()[i].(string) != want {
				return append(out, fw.V("plugin/template.HTMLTemplate/lift/value-differs", fmt.Sprintf("item %+v: html/template gives %q, stream delivered %v", it, want, rec.Values())))
			}
		}
		return out
	}})
	// one operator value used for several sources, the first of which ends on an item whose rendering fails
	// half-way: what the later pipelines deliver is what the wrapped function returns for their items alone
	for _, fl := range []struct {
		name string
		op   func(string) func(ro.Observable[[]string]) ro.Observable[string]
		exec func(string, interface{}) (string, error)
	}{
		{"TextTemplate", func(t string) func(ro.Observable[[]string]) ro.Observable[string] {
			return rotemplate.TextTemplate[[]string](t)
		}, execText},
		{"HTMLTemplate", func(t string) func(ro.Observable[[]string]) ro.Observable[string] {
			return rotemplate.HTMLTemplate[[]string](t)
		}, execHTML},
	} {
		fl := fl
		cases = append(cases, plugCase{"template", fl.name + "(operator value reused after a failed render)", func() []fw.Violation {
			tpl := "<td>{{index . 0}}</td><td>{{index . 1}}</td>"
			op := fl.op(tpl)
			inputs := [][][]string{{{"a", "b"}, {"x"}}, {{"e", "f"}}, {{"g", "h"}, {"y"}}, {{"i", "j"}}}
			for n, items := range inputs {
				var word []h.Ev
				for _, it := range items {
					word = append(word, h.Nx(it))
				}
				word = append(word, h.Co())
				rec := h.NewRec("out")
				op(h.Script[[]string](h.NewSrc(fmt.Sprint("src", n)), h.Unsafe, word)).Subscribe(h.Observer[string](rec))
				vals := rec.Values()
				for i, it := range items {
					want, err := fl.exec(tpl, it)
					if err != nil {
						break // the stream ends with the error here
					}
					if i >= len(vals) || vals[i].(string) != want {
						return []fw.Violation{fw.V("plugin/template."+fl.name+"/operator-value-reused/value-differs", fmt.Sprintf("pipeline #%d built from the same operator value, item %q: the template gives %q, the stream delivered %v", n+1, it, want, vals))}
					}
				}
			}
			return nil
		}})
	}
	return cases
}

func init() {
	checks.Registry["C18"] = func(tier string) []fw.Scenario {
		textLen, convLen, reLen := 4, 3, 4
		if tier == "thorough" {
			textLen, convLen, reLen = 5, 4, 5
		}
		var all []plugCase
		all = append(all, textCases(textLen)...)
		all = append(all, strconvCases(convLen)...)
		all = append(all, regexpCases(reLen)...)
		all = append(all, base64Cases()...)
		all = append(all, sortCases(tier)...)
		all = append(all, stdioCases()...)
		all = append(all, encodingCases()...)
		all = append(all, timeTemplateCases()...)
		var scns []fw.Scenario
		for _, pc := range all {
			pc := pc
			scns = append(scns, fw.Scenario{ID: "C18/" + pc.group + "/" + pc.name, Group: pc.group, Run: func(c *fw.Ctx) {
				c.Explore(fw.Case{Name: pc.name, Opts: vrt.Options{Horizon: 1 << 30}, Make: func() fw.Instance {
					var viol []fw.Violation
					n := 0
					body := func() {
						before := inputsCounter
						viol = pc.run()
						n = inputsCounter - before
					}
					return fw.Instance{Body: body, Outcome: func() string { return pc.name }, Check: func(r *vrt.Result) []fw.Violation {
						c.AddExtra("inputs", int64(n))
						if r.Crash != nil {
							viol = append(viol, fw.V("plugin/"+pc.group+"."+pc.name+"/panic/goroutine", r.Crash.Value))
						}
						return viol
					}}
				}})
			}})
		}
		return scns
	}
}

var inputsCounter int
