package plugchecks

import (
	"bytes"
	"encoding/json"
	htmpl "html/template"
	ttmpl "text/template"
)

func jsonMarshal(v interface{}) ([]byte, error)   { return json.Marshal(v) }
func jsonUnmarshal(b []byte, v interface{}) error { return json.Unmarshal(b, v) }

func execText(tpl string, v interface{}) (string, error) {
	t, err := ttmpl.New("t").Parse(tpl)
	if err != nil {
		return "", err
	}
	var buf bytes.Buffer
	err = t.Execute(&buf, v)
	return buf.String(), err
}

func execHTML(tpl string, v interface{}) (string, error) {
	t, err := htmpl.New("t").Parse(tpl)
	if err != nil {
		return "", err
	}
	var buf bytes.Buffer
	err = t.Execute(&buf, v)
	return buf.String(), err
}
