package plugchecks

import (
	"context"
	"errors"
	"fmt"
	"strings"
	"time"

	"github.com/samber/ro"
	ronative "github.com/samber/ro/plugins/ratelimit/native"
	roulule "github.com/samber/ro/plugins/ratelimit/ulule"
	"github.com/ulule/limiter/v3"
	"github.com/ulule/limiter/v3/drivers/store/memory"
	"verif.local/harness/checks"
	"verif.local/harness/fw"
	"verif.local/harness/h"
	"verif.local/vrt"
)

// C20 - rate limiters never exceed the quota and keep per-key order. Virtual clock, unit u.

const u = time.Millisecond

type item struct {
	Key string
	ID  int
}

type tlItem struct {
	gap time.Duration
	key string
}

func tlName(tl []tlItem, end string) string {
	var s []string
	for _, it := range tl {
		s = append(s, fmt.Sprintf("+%d:%s", it.gap/u, it.key))
	}
	return strings.Join(s, " ") + " " + end
}

type limiterKind struct {
	name  string
	quota int64
	win   time.Duration
	build func() func(ro.Observable[item]) ro.Observable[item]
}

func limiterKinds() []limiterKind {
	var out []limiterKind
	key := func(it item) string { return it.Key }
	for _, q := range []int64{1, 2} {
		for _, w := range []time.Duration{2 * u, 3 * u} {
			q, w := q, w
			out = append(out, limiterKind{name: fmt.Sprintf("native(quota=%d,window=%du)", q, w/u), quota: q, win: w,
				build: func() func(ro.Observable[item]) ro.Observable[item] { return ronative.NewRateLimiter[item](q, w, key) }})
			out = append(out, limiterKind{name: fmt.Sprintf("ulule(quota=%d,window=%du)", q, w/u), quota: q, win: w,
				build: func() func(ro.Observable[item]) ro.Observable[item] {
					store := memory.NewStoreWithOptions(limiter.StoreOptions{Prefix: "verif", CleanUpInterval: time.Hour})
					return roulule.NewRateLimiter[item](limiter.New(store, limiter.Rate{Period: w, Limit: q}), key)
				}})
		}
	}
	return out
}

type c20run struct {
	rec   *h.Rec
	emits []int64 // virtual time at which item i was pushed
}

//go:norace
func (r *c20run) emitted(at int64) { r.emits = append(r.emits, at) }

func c20Body(lk limiterKind, tl []tlItem, end string, onThread bool, run *c20run, skipKey string) func() {
	return func() {
		src := h.NewSrc("src")
		o, push := h.Pushed[item](src, h.Unsafe)
		lk.build()(o).Subscribe(h.Observer[item](run.rec))
		produce := func() {
			for i, it := range tl {
				vrt.HSleep(int64(it.gap))
				run.emitted(vrt.NowNS())
				if it.key == skipKey {
					continue // the item is deleted from the timeline; the others keep their absolute instants
				}
				push.Next(item{it.key, i})
			}
			switch end {
			case "C":
				push.Complete()
			case "E":
				push.Error(h.ErrSrc)
			}
		}
		if onThread {
			vrt.GoNamed("producer", produce)
		} else {
			produce()
		}
	}
}

func perKey(evs []h.Entry, key string) []h.Entry {
	var out []h.Entry
	for _, e := range evs {
		if e.K == h.N && e.V.(item).Key == key {
			out = append(out, e)
		}
	}
	return out
}

func c20Case(lk limiterKind, tl []tlItem, end string, onThread bool, bound int) fw.Case {
	return c20CaseSlow(lk, tl, end, onThread, bound, 0)
}

// c20CaseSlow: the observer takes `slow` of virtual time per item, so that window boundaries fall
// while an item is being delivered.
func c20CaseSlow(lk limiterKind, tl []tlItem, end string, onThread bool, bound int, slow time.Duration) fw.Case {
	nm := tlName(tl, end)
	if onThread {
		nm = "thread: " + nm
	}
	if slow > 0 {
		nm += fmt.Sprintf(" / observer takes %du per item", slow/u)
	}
	total := time.Duration(0)
	for _, it := range tl {
		total += it.gap
	}
	total += time.Duration(len(tl)) * slow
	return fw.Case{Name: nm, Bound: bound, Opts: vrt.Options{Horizon: 200000, MaxTime: int64(total + 3*lk.win)}, Make: func() fw.Instance {
		run := &c20run{rec: h.NewRec("out")}
		if slow > 0 {
			run.rec.Hook = func(r *h.Rec, idx int, e h.Ev) {
				if e.K == h.N {
					vrt.HSleep(int64(slow))
				}
			}
		}
		return fw.Instance{Body: c20Body(lk, tl, end, onThread, run, ""), Outcome: func() string {
			var s []string
			for _, en := range run.rec.Log {
				if en.K == h.N {
					s = append(s, fmt.Sprintf("%s%d@%d", en.V.(item).Key, en.V.(item).ID, en.T/int64(u)))
				} else {
					s = append(s, en.Ev.Short())
				}
			}
			return strings.Join(s, " ")
		}, Nontrivial: func(r *vrt.Result) bool { return run.rec.Len() > 0 }, Check: func(r *vrt.Result) []fw.Violation {
			var out []fw.Violation
			sig := "ratelimit/" + lk.name
			where := lk.name + ", timeline [" + nm + "]"
			add := func(clause, cls, detail string) {
				out = append(out, fw.V(sig+"/"+clause+"/"+cls, where+": "+detail))
			}
			if r.Crash != nil {
				add("goroutine-top-panic", r.Crash.Name, r.Crash.Value)
			}
			for _, b := range r.Blocked {
				if b.Name == "main" || b.Name == "producer" {
					add("producer-blocked", b.Op, "the producer's call never returned: "+b.Op)
				}
			}
			evs := run.rec.Events()
			if g := h.GrammarError(evs); g != "" {
				add("grammar", "broken", g)
			}
			for _, key := range []string{"a", "b"} {
				ks := perKey(run.rec.Log, key)
				// order, no duplicates: ids strictly increasing
				for i := 1; i < len(ks); i++ {
					if ks[i].V.(item).ID <= ks[i-1].V.(item).ID {
						add("per-key-order", "reordered-or-duplicated", fmt.Sprintf("key %s: item %d delivered after item %d", key, ks[i].V.(item).ID, ks[i-1].V.(item).ID))
						break
					}
				}
				// only items that were pushed
				for _, e := range ks {
					id := e.V.(item).ID
					if id < 0 || id >= len(tl) || tl[id].key != key {
						add("invented-item", "value", fmt.Sprintf("%v was never pushed", e.V))
					}
				}
				// quota: in any span of length L at most quota*(floor(L/window)+2) items of one key (by emission instants)
				for i := 0; i < len(ks); i++ {
					for j := i; j < len(ks); j++ {
						ti, tj := run.emits[ks[i].V.(item).ID], run.emits[ks[j].V.(item).ID]
						span := tj - ti
						allowed := lk.quota * (span/int64(lk.win) + 2)
						if int64(j-i+1) > allowed {
							add("quota-exceeded", "window", fmt.Sprintf("key %s: %d items passed within %du (quota %d per %du)", key, j-i+1, span/int64(u), lk.quota, lk.win/u))
							i, j = len(ks), len(ks)
						}
					}
				}
			}
			// terminal propagation
			last := h.Ev{K: h.N}
			if len(evs) > 0 {
				last = evs[len(evs)-1]
			}
			switch end {
			case "C":
				if last.K != h.C {
					add("completion-not-propagated", "missing", fmt.Sprintf("the source completed; trace ends with %s", last.Short()))
				}
			case "E":
				if last.K != h.E || !errors.Is(last.Err, h.ErrSrc) {
					add("error-not-propagated", "missing", fmt.Sprintf("the source failed; trace ends with %s", last.Short()))
				}
			default:
				if last.K != h.N {
					add("spurious-terminal", last.Short(), "the source is still open")
				}
			}
			return out
		}}
	}}
}

// key independence: key a's output is unchanged when key b's items are deleted from the timeline.
func c20Independence(lk limiterKind, tl []tlItem, end string) fw.Case {
	nm := "independence: " + tlName(tl, end)
	total := time.Duration(0)
	for _, it := range tl {
		total += it.gap
	}
	return fw.Case{Name: nm, Opts: vrt.Options{Horizon: 400000, MaxTime: int64(2*(total+3*lk.win)) + int64(time.Hour)}, Make: func() fw.Instance {
		full, only := &c20run{rec: h.NewRec("full")}, &c20run{rec: h.NewRec("only-a")}
		body := func() {
			c20Body(lk, tl, end, false, full, "")()
			vrt.HSleep(int64(time.Hour / 2)) // far from the first run: windows and counters have expired
			c20Body(lk, tl, end, false, only, "b")()
		}
		return fw.Instance{Body: body, Outcome: func() string { return full.rec.Trace() }, Check: func(r *vrt.Result) []fw.Violation {
			ids := func(rr *c20run) string {
				var s []string
				for _, e := range perKey(rr.rec.Log, "a") {
					s = append(s, fmt.Sprint(e.V.(item).ID))
				}
				return strings.Join(s, ",")
			}
			if ids(full) != ids(only) {
				return []fw.Violation{fw.V("ratelimit/"+lk.name+"/keys-not-independent/differs", fmt.Sprintf("%s, timeline [%s]: key a passed items [%s]; with key b's items deleted it passes [%s]", lk.name, tlName(tl, end), ids(full), ids(only)))}
			}
			return nil
		}}
	}}
}

// ulule: a failing store turns into an Error notification.
type failingStore struct{ limiter.Store }

var errStore = errors.New("verif: store failure")

func (failingStore) Get(ctx context.Context, key string, rate limiter.Rate) (limiter.Context, error) {
	return limiter.Context{}, errStore
}

func init() {
	checks.Registry["C20"] = func(tier string) []fw.Scenario {
		n, bound := 4, 1
		if tier == "thorough" {
			n, bound = 5, 2
		}
		var scns []fw.Scenario
		for _, lk := range limiterKinds() {
			lk := lk
			gaps := []time.Duration{0, lk.win / 2, lk.win, 2 * lk.win}
			var tls [][]tlItem
			var gen func(cur []tlItem)
			gen = func(cur []tlItem) {
				if len(cur) > 0 {
					tls = append(tls, append([]tlItem{}, cur...))
				}
				if len(cur) == n {
					return
				}
				for _, g := range gaps {
					for _, k := range []string{"a", "b"} {
						if len(cur) == 0 && k == "b" {
							continue // symmetric
						}
						gen(append(cur, tlItem{g, k}))
					}
				}
			}
			gen(nil)
			for ci := 0; ci < len(tls); ci += 200 {
				chunk := tls[ci:minInt(ci+200, len(tls))]
				scns = append(scns, fw.Scenario{ID: fmt.Sprintf("C20/%s/%d", lk.name, ci), Group: lk.name, Run: func(c *fw.Ctx) {
					for _, tl := range chunk {
						for _, end := range []string{"C", "E", "open"} {
							if len(tl) == n && end != "C" {
								continue
							}
							c.Explore(c20Case(lk, tl, end, false, 0))
							if len(tl) <= 1 {
								// single-item timelines once more with one more deviation (a window boundary
								// and the end of the source preempting each other twice)
								c.Explore(c20Case(lk, tl, end, true, bound+1))
							}
							if len(tl) <= 3 {
								b := bound
								if len(tl) == 3 && bound > 1 {
									b = bound - 1 // (three items at two deviations alone outlast the thorough budget)
								}
								c.Explore(c20Case(lk, tl, end, true, b))
								for _, slow := range []time.Duration{lk.win / 2, lk.win, lk.win + u} {
									if slow > 0 {
										c.Explore(c20CaseSlow(lk, tl, end, true, bound-1, slow))
									}
								}
							}
						}
						if len(tl) <= 3 {
							c.Explore(c20Independence(lk, tl, "C"))
						}
					}
				}})
			}
		}
		scns = append(scns, fw.Scenario{ID: "C20/ulule/store-error", Group: "ulule", Run: func(c *fw.Ctx) {
			c.Explore(fw.Case{Name: "store-error", Make: func() fw.Instance {
				rec := h.NewRec("out")
				body := func() {
					lim := limiter.New(failingStore{}, limiter.Rate{Period: u, Limit: 1})
					op := roulule.NewRateLimiter[item](lim, func(it item) string { return it.Key })
					op(ro.Just(item{"a", 0}, item{"a", 1})).Subscribe(h.Observer[item](rec))
				}
				return fw.Instance{Body: body, Outcome: rec.Trace, Check: func(r *vrt.Result) []fw.Violation {
					evs := rec.Events()
					if len(evs) != 1 || evs[0].K != h.E || !errors.Is(evs[0].Err, errStore) {
						return []fw.Violation{fw.V("ratelimit/ulule/store-error-not-reported/trace", "a failing store gave the trace ["+rec.Trace()+"]")}
					}
					return nil
				}}
			}})
		}})
		return scns
	}
}
