package cat

import (
	"time"
	"context"
	"math"

	"github.com/samber/ro"
	"verif.local/harness/h"
)

// repeatWord is the model of "subscribe again and again": the cold source replays its word each time.
// attempts(i, vals, end) says what to do after attempt i ended with `end`: (again, final terminal).
func resubModel(decide func(attempt int, end h.Ev) (again bool, final *h.Ev), maxAttempts int) (func(in []h.Ev) []h.Ev, func(in []h.Ev) int) {
	run := func(in []h.Ev) ([]h.Ev, int) {
		vals, end := split(in)
		var out []h.Ev
		n := 0
		for {
			n++
			for _, v := range vals {
				out = append(out, h.Nx(v))
			}
			if end == nil {
				return out, n // open source: the attempt never ends
			}
			again, fin := decide(n-1, *end)
			if !again || n >= maxAttempts {
				if fin != nil {
					out = append(out, *fin)
				}
				return out, n
			}
		}
	}
	return func(in []h.Ev) []h.Ev { o, _ := run(in); return o }, func(in []h.Ev) int { _, n := run(in); return n }
}

// MoreRows: error handling, utility, sinks, context operators.
func MoreRows() []Row {
	var rows []Row
	add := func(r ...Row) { rows = append(rows, r...) }
	S := Sync
	SS := Sync | Stateful

	// ---------- error handling ----------
	add(intRow("Catch(->Just(8,9))", "Catch", S|Creates, func(e *Env) Op[int, int] {
		return Op[int, int](ro.Catch(func(err error) ro.Observable[int] { e.Hit("handler"); return ro.Just(8, 9) }))
	}, func(in []h.Ev) []h.Ev {
		vals, end := split(in)
		if end != nil && end.K == h.E {
			return join(append(vals, 8, 9), cEnd())
		}
		return join(vals, end)
	}))
	add(intRow("Catch(->Throw(alt))", "Catch", S|Creates, func(e *Env) Op[int, int] {
		return Op[int, int](ro.Catch(func(err error) ro.Observable[int] { e.Hit("handler"); return ro.Throw[int](h.ErrAlt) }))
	}, func(in []h.Ev) []h.Ev {
		vals, end := split(in)
		if end != nil && end.K == h.E {
			return join(vals, eEnd(h.ErrAlt))
		}
		return join(vals, end)
	}))
	add(intRow("OnErrorReturn(77)", "OnErrorReturn", S|Creates, func(e *Env) Op[int, int] { return Op[int, int](ro.OnErrorReturn(77)) },
		func(in []h.Ev) []h.Ev {
			vals, end := split(in)
			if end != nil && end.K == h.E {
				return join(append(vals, 77), cEnd())
			}
			return join(vals, end)
		}))
	{
		r := intRow("OnErrorResumeNextWith(Just(8),Throw(alt))", "OnErrorResumeNextWith", S|Blocking|Creates, func(e *Env) Op[int, int] {
			return Op[int, int](ro.OnErrorResumeNextWith(ro.Just(8), ro.Throw[int](h.ErrAlt)))
		}, func(in []h.Ev) []h.Ev {
			vals, end := split(in)
			if end == nil {
				return join(vals, nil)
			}
			return join(append(vals, 8), eEnd(h.ErrAlt))
		})
		add(r)
		r2 := intRow("OnErrorResumeNextWith(Just(8,9))", "OnErrorResumeNextWith", S|Blocking|Creates, func(e *Env) Op[int, int] {
			return Op[int, int](ro.OnErrorResumeNextWith(ro.Just(8, 9)))
		}, func(in []h.Ev) []h.Ev {
			vals, end := split(in)
			if end == nil {
				return join(vals, nil)
			}
			return join(append(vals, 8, 9), cEnd())
		})
		add(r2)
		add(intRow("OnErrorResumeNextWith()", "OnErrorResumeNextWith", S, func(e *Env) Op[int, int] {
			return Op[int, int](ro.OnErrorResumeNextWith[int]())
		}, identity))
	}
	{
		// variadic "...With" operators, built from argument slices that have spare capacity (an operator
		// that appends to or shifts its argument slice in place then rewrites what an earlier application
		// of the same operator value captured)
		spareObs := func(os ...ro.Observable[int]) []ro.Observable[int] {
			a := make([]ro.Observable[int], 0, len(os)+3)
			return append(a, os...)
		}
		spareInts := func(vs ...int) []int {
			a := make([]int, 0, len(vs)+3)
			return append(a, vs...)
		}
		add(intRow("ConcatWith(Just(8),Just(9))[spare cap]", "ConcatWith", S|Blocking|Creates, func(e *Env) Op[int, int] {
			return Op[int, int](ro.ConcatWith(spareObs(ro.Just(8), ro.Just(9))...))
		}, func(in []h.Ev) []h.Ev {
			vals, end := split(in)
			if end != nil && end.K == h.C {
				return join(append(vals, 8, 9), cEnd())
			}
			return join(vals, end)
		}))
		add(intRow("ConcatWith(Just(8))[spare cap]", "ConcatWith", S|Blocking|Creates, func(e *Env) Op[int, int] {
			return Op[int, int](ro.ConcatWith(spareObs(ro.Just(8))...))
		}, func(in []h.Ev) []h.Ev {
			vals, end := split(in)
			if end != nil && end.K == h.C {
				return join(append(vals, 8), cEnd())
			}
			return join(vals, end)
		}))
		add(intRow("MergeWith(Empty,Empty)[spare cap]", "MergeWith", S|Creates, func(e *Env) Op[int, int] {
			return Op[int, int](ro.MergeWith(spareObs(ro.Empty[int](), ro.Empty[int]())...))
		}, identity))
		add(intRow("RaceWith(never,never)[spare cap]", "RaceWith", S|Creates, func(e *Env) Op[int, int] {
			never := func() ro.Observable[int] {
				return ro.NewObservable(func(ro.Observer[int]) ro.Teardown { return nil })
			}
			return Op[int, int](ro.RaceWith(spareObs(never(), never())...))
		}, identity))
		add(intRow("StartWith(8,9)[spare cap]", "StartWith", S|Creates, func(e *Env) Op[int, int] {
			return Op[int, int](ro.StartWith(spareInts(8, 9)...))
		}, func(in []h.Ev) []h.Ev {
			vals, end := split(in)
			return join(append([]interface{}{8, 9}, vals...), end)
		}))
		add(intRow("EndWith(8,9)[spare cap]", "EndWith", S|Creates, func(e *Env) Op[int, int] {
			return Op[int, int](ro.EndWith(spareInts(8, 9)...))
		}, func(in []h.Ev) []h.Ev {
			vals, end := split(in)
			if end != nil && end.K == h.C {
				return join(append(vals, 8, 9), end)
			}
			return join(vals, end)
		}))
		add(intRow("OnErrorResumeNextWith(Just(8),Just(9))[spare cap]", "OnErrorResumeNextWith", S|Blocking|Creates, func(e *Env) Op[int, int] {
			return Op[int, int](ro.OnErrorResumeNextWith(spareObs(ro.Just(8), ro.Just(9))...))
		}, func(in []h.Ev) []h.Ev {
			vals, end := split(in)
			if end == nil {
				return join(vals, nil)
			}
			return join(append(vals, 8, 9), cEnd())
		}))
	}
	for _, mr := range []uint64{1, 2} {
		mr := mr
		m, subs := resubModel(func(attempt int, end h.Ev) (bool, *h.Ev) {
			if end.K == h.C {
				return false, cEnd()
			}
			if uint64(attempt) < mr {
				return true, nil
			}
			return false, &end
		}, 10)
		r := intRow(name("RetryWithConfig(max=%d)", mr), "Retry", S|Blocking|Resubscribes, func(e *Env) Op[int, int] {
			return Op[int, int](ro.RetryWithConfig[int](ro.RetryConfig{MaxRetries: mr}))
		}, m)
		r.Subs = subs
		add(r)
	}
	{
		// ResetOnSuccess: the budget counts from the last delivered value, so a failing attempt that
		// delivered something is retried for ever; bounded here by Take in the C15 driver, not in this table.
		m, subs := resubModel(func(attempt int, end h.Ev) (bool, *h.Ev) {
			if end.K == h.C {
				return false, cEnd()
			}
			if attempt < 1 {
				return true, nil
			}
			return false, &end
		}, 10)
		r := intRow("RetryWithConfig(max=1,reset) [empty attempts]", "Retry", S|Blocking|Resubscribes, func(e *Env) Op[int, int] {
			return Op[int, int](ro.RetryWithConfig[int](ro.RetryConfig{MaxRetries: 1, ResetOnSuccess: true}))
		}, m)
		r.Subs = subs
		r.Vals = []interface{}{} // only scripts without values: with values the retry budget never runs out
		add(r)
	}
	add(intRow("ThrowIfEmpty(alt)", "ThrowIfEmpty", SS, func(e *Env) Op[int, int] {
		return Op[int, int](ro.ThrowIfEmpty[int](func() error { e.Hit("factory"); return h.ErrAlt }))
	}, atEnd(func(i int, v interface{}) []interface{} { return one(v) }, func(vals []interface{}) ([]interface{}, *h.Ev) {
		if len(vals) == 0 {
			return nil, eEnd(h.ErrAlt)
		}
		return nil, nil
	})))
	for _, k := range []int{0, 1, 2} {
		k := k
		// DoWhile: run once, then again while the condition (true for the first k evaluations) holds.
		m, subs := resubModel(func(attempt int, end h.Ev) (bool, *h.Ev) {
			if end.K == h.E {
				return false, &end
			}
			if attempt < k {
				return true, nil
			}
			return false, cEnd()
		}, 10)
		if k == 0 {
			// the plain variants get a pure condition (a counting closure would be state of the test, not of ro)
			r := intRow("DoWhile(false)", "DoWhile", S|Blocking|Resubscribes, func(e *Env) Op[int, int] {
				return Op[int, int](ro.DoWhile[int](func() bool { e.Hit("condition"); return false }))
			}, m)
			r.Subs = subs
			add(r)
			rc := intRow("DoWhileWithContext(false)", "DoWhile", S|Blocking|Resubscribes, func(e *Env) Op[int, int] {
				return Op[int, int](ro.DoWhileWithContext[int](func(ctx context.Context) (context.Context, bool) {
					e.Hit("condition")
					return e.Ctx("condition", ctx), false
				}))
			}, m)
			rc.Subs = subs
			add(rc)
		}
		ric := intRow(name("DoWhileIWithContext(i<%d)", k), "DoWhile", S|Blocking|Resubscribes, func(e *Env) Op[int, int] {
			return Op[int, int](ro.DoWhileIWithContext[int](func(ctx context.Context, i int64) (context.Context, bool) {
				e.Hit("condition")
				return e.Ctx("condition", ctx), int(i) < k
			}))
		}, m)
		ric.Subs = subs
		add(ric)
		ri := intRow(name("DoWhileI(i<%d)", k), "DoWhile", S|Blocking|Resubscribes, func(e *Env) Op[int, int] {
			return Op[int, int](ro.DoWhileI[int](func(i int64) bool { e.Hit("condition"); return int(i) < k }))
		}, m)
		ri.Subs = subs
		add(ri)
		// While: the condition is evaluated before each subscription.
		wm := func(in []h.Ev) []h.Ev {
			vals, end := split(in)
			var out []h.Ev
			for a := 0; a < k; a++ {
				for _, v := range vals {
					out = append(out, h.Nx(v))
				}
				if end == nil {
					return out
				}
				if end.K == h.E {
					return append(out, *end)
				}
			}
			return append(out, h.Co())
		}
		wsubs := func(in []h.Ev) int {
			_, end := split(in)
			if k == 0 {
				return 0
			}
			if end == nil || end.K == h.E {
				return 1
			}
			return k
		}
		if k == 0 {
			rw := intRow("While(false)", "While", S|Blocking|Resubscribes|NoSubscribe, func(e *Env) Op[int, int] {
				return Op[int, int](ro.While[int](func() bool { e.Hit("condition"); return false }))
			}, wm)
			rw.Subs = wsubs
			add(rw)
			rwc := intRow("WhileWithContext(false)", "While", S|Blocking|Resubscribes|NoSubscribe, func(e *Env) Op[int, int] {
				return Op[int, int](ro.WhileWithContext[int](func(ctx context.Context) (context.Context, bool) {
					e.Hit("condition")
					return e.Ctx("condition", ctx), false
				}))
			}, wm)
			rwc.Subs = wsubs
			add(rwc)
		}
		rwic := intRow(name("WhileIWithContext(i<%d)", k), "While", S|Blocking|Resubscribes, func(e *Env) Op[int, int] {
			return Op[int, int](ro.WhileIWithContext[int](func(ctx context.Context, i int64) (context.Context, bool) {
				e.Hit("condition")
				return e.Ctx("condition", ctx), int(i) < k
			}))
		}, wm)
		rwic.Subs = wsubs
		if k == 0 {
			rwic.Class |= NoSubscribe
		}
		add(rwic)
		rwi := intRow(name("WhileI(i<%d)", k), "While", S|Blocking|Resubscribes, func(e *Env) Op[int, int] {
			return Op[int, int](ro.WhileI[int](func(i int64) bool { e.Hit("condition"); return int(i) < k }))
		}, wm)
		rwi.Subs = wsubs
		if k == 0 {
			rwi.Class |= NoSubscribe
		}
		add(rwi)
	}
	for _, n := range []int64{0, 1, 2, 3} {
		n := n
		m := func(in []h.Ev) []h.Ev {
			if n == 0 {
				return []h.Ev{h.Co()}
			}
			vals, end := split(in)
			var out []h.Ev
			for a := int64(0); a < n; a++ {
				for _, v := range vals {
					out = append(out, h.Nx(v))
				}
				if end == nil {
					return out
				}
				if end.K == h.E {
					return append(out, *end)
				}
			}
			return append(out, h.Co())
		}
		r := intRow(name("RepeatWith(%d)", n), "RepeatWith", S|Blocking|Resubscribes, func(e *Env) Op[int, int] {
			return Op[int, int](ro.RepeatWith[int](n))
		}, m)
		r.Subs = func(in []h.Ev) int {
			_, end := split(in)
			if n == 0 {
				return 0
			}
			if end == nil || end.K == h.E {
				return 1
			}
			return int(n)
		}
		if n == 0 {
			r.Class |= NoSubscribe
		}
		add(r)
	}

	// ---------- utility ----------
	add(intRow("Tap", "Tap", S, func(e *Env) Op[int, int] {
		return Op[int, int](ro.Tap(func(v int) { e.Hit("onNext") }, func(err error) { e.Hit("onError") }, func() { e.Hit("onComplete") }))
	}, identity))
	add(intRow("TapWithContext", "Tap", S, func(e *Env) Op[int, int] {
		return Op[int, int](ro.TapWithContext(
			func(ctx context.Context, v int) { e.Hit("onNext"); e.Ctx("onNext", ctx) },
			func(ctx context.Context, err error) { e.Hit("onError"); e.Ctx("onError", ctx) },
			func(ctx context.Context) { e.Hit("onComplete"); e.Ctx("onComplete", ctx) }))
	}, identity))
	add(intRow("Do", "Tap", S, func(e *Env) Op[int, int] {
		return Op[int, int](ro.Do(func(v int) { e.Hit("onNext") }, func(err error) { e.Hit("onError") }, func() { e.Hit("onComplete") }))
	}, identity))
	add(intRow("DoWithContext", "Tap", S, func(e *Env) Op[int, int] {
		return Op[int, int](ro.DoWithContext(
			func(ctx context.Context, v int) { e.Hit("onNext"); e.Ctx("onNext", ctx) },
			func(ctx context.Context, err error) { e.Hit("onError"); e.Ctx("onError", ctx) },
			func(ctx context.Context) { e.Hit("onComplete"); e.Ctx("onComplete", ctx) }))
	}, identity))
	add(intRow("TapOnNext", "Tap", S, func(e *Env) Op[int, int] {
		return Op[int, int](ro.TapOnNext(func(v int) { e.Hit("onNext") }))
	}, identity))
	add(intRow("TapOnNextWithContext", "Tap", S, func(e *Env) Op[int, int] {
		return Op[int, int](ro.TapOnNextWithContext(func(ctx context.Context, v int) { e.Hit("onNext"); e.Ctx("onNext", ctx) }))
	}, identity))
	add(intRow("DoOnNext", "Tap", S, func(e *Env) Op[int, int] {
		return Op[int, int](ro.DoOnNext(func(v int) { e.Hit("onNext") }))
	}, identity))
	add(intRow("DoOnNextWithContext", "Tap", S, func(e *Env) Op[int, int] {
		return Op[int, int](ro.DoOnNextWithContext(func(ctx context.Context, v int) { e.Hit("onNext"); e.Ctx("onNext", ctx) }))
	}, identity))
	add(intRow("TapOnError", "Tap", S, func(e *Env) Op[int, int] {
		return Op[int, int](ro.TapOnError[int](func(err error) { e.Hit("onError") }))
	}, identity))
	add(intRow("TapOnErrorWithContext", "Tap", S, func(e *Env) Op[int, int] {
		return Op[int, int](ro.TapOnErrorWithContext[int](func(ctx context.Context, err error) { e.Hit("onError"); e.Ctx("onError", ctx) }))
	}, identity))
	add(intRow("DoOnError", "Tap", S, func(e *Env) Op[int, int] {
		return Op[int, int](ro.DoOnError[int](func(err error) { e.Hit("onError") }))
	}, identity))
	add(intRow("DoOnErrorWithContext", "Tap", S, func(e *Env) Op[int, int] {
		return Op[int, int](ro.DoOnErrorWithContext[int](func(ctx context.Context, err error) { e.Hit("onError"); e.Ctx("onError", ctx) }))
	}, identity))
	add(intRow("TapOnComplete", "Tap", S, func(e *Env) Op[int, int] {
		return Op[int, int](ro.TapOnComplete[int](func() { e.Hit("onComplete") }))
	}, identity))
	add(intRow("TapOnCompleteWithContext", "Tap", S, func(e *Env) Op[int, int] {
		return Op[int, int](ro.TapOnCompleteWithContext[int](func(ctx context.Context) { e.Hit("onComplete"); e.Ctx("onComplete", ctx) }))
	}, identity))
	add(intRow("DoOnComplete", "Tap", S, func(e *Env) Op[int, int] {
		return Op[int, int](ro.DoOnComplete[int](func() { e.Hit("onComplete") }))
	}, identity))
	add(intRow("DoOnCompleteWithContext", "Tap", S, func(e *Env) Op[int, int] {
		return Op[int, int](ro.DoOnCompleteWithContext[int](func(ctx context.Context) { e.Hit("onComplete"); e.Ctx("onComplete", ctx) }))
	}, identity))
	add(intRow("TapOnSubscribe", "TapOnSubscribe", S, func(e *Env) Op[int, int] {
		return Op[int, int](ro.TapOnSubscribe[int](func() { e.Hit("onSubscribe") }))
	}, identity))
	add(intRow("TapOnSubscribeWithContext", "TapOnSubscribe", S, func(e *Env) Op[int, int] {
		return Op[int, int](ro.TapOnSubscribeWithContext[int](func(ctx context.Context) { e.Hit("onSubscribe"); e.Ctx("onSubscribe", ctx) }))
	}, identity))
	add(intRow("DoOnSubscribe", "TapOnSubscribe", S, func(e *Env) Op[int, int] {
		return Op[int, int](ro.DoOnSubscribe[int](func() { e.Hit("onSubscribe") }))
	}, identity))
	add(intRow("DoOnSubscribeWithContext", "TapOnSubscribe", S, func(e *Env) Op[int, int] {
		return Op[int, int](ro.DoOnSubscribeWithContext[int](func(ctx context.Context) { e.Hit("onSubscribe"); e.Ctx("onSubscribe", ctx) }))
	}, identity))
	add(intRow("TapOnFinalize", "TapOnFinalize", S, func(e *Env) Op[int, int] {
		return Op[int, int](ro.TapOnFinalize[int](func() { e.Hit("onFinalize") }))
	}, identity))
	add(intRow("DoOnFinalize", "TapOnFinalize", S, func(e *Env) Op[int, int] {
		return Op[int, int](ro.DoOnFinalize[int](func() { e.Hit("onFinalize") }))
	}, identity))
	add(intRow("Serialize", "Serialize", S, func(e *Env) Op[int, int] { return Op[int, int](ro.Serialize[int]()) }, identity))
	add(mkRow("Materialize", "Materialize", S|Creates, func(e *Env) Op[int, ro.Notification[int]] {
		return Op[int, ro.Notification[int]](ro.Materialize[int]())
	}, func(in []h.Ev) []h.Ev {
		var out []h.Ev
		for _, ev := range in {
			switch ev.K {
			case h.N:
				out = append(out, h.Nx(ro.NewNotificationNext(iv(ev.V))))
			case h.E:
				return append(out, h.Nx(ro.NewNotificationError[int](ev.Err)), h.Co())
			case h.C:
				return append(out, h.Nx(ro.NewNotificationComplete[int]()), h.Co())
			}
		}
		return out
	}))
	add(intRow("Materialize|Dematerialize", "Dematerialize", S|Creates, func(e *Env) Op[int, int] {
		return func(o ro.Observable[int]) ro.Observable[int] {
			return ro.Dematerialize[int]()(ro.Materialize[int]()(o))
		}
	}, identity))
	add(mkRow("TimeInterval(values only)", "TimeInterval", SS, func(e *Env) Op[int, int] {
		return func(o ro.Observable[int]) ro.Observable[int] {
			return ro.Map(func(v ro.IntervalValue[int]) int { return v.Value })(ro.TimeInterval[int]()(o))
		}
	}, identity))
	add(mkRow("Timestamp(values only)", "Timestamp", SS, func(e *Env) Op[int, int] {
		return func(o ro.Observable[int]) ro.Observable[int] {
			return ro.Map(func(v ro.TimestampValue[int]) int { return v.Value })(ro.Timestamp[int]()(o))
		}
	}, identity))

	// ---------- sinks ----------
	ts := mkRow("ToSlice", "ToSlice", SS|Aggregate, func(e *Env) Op[int, []int] { return Op[int, []int](ro.ToSlice[int]()) },
		atEnd(nil, func(vals []interface{}) ([]interface{}, *h.Ev) {
			out := []int{}
			for _, v := range vals {
				out = append(out, iv(v))
			}
			return one(out), nil
		}))
	add(ts)
	toMap := func(key func(i, v int) (int, int)) func(in []h.Ev) []h.Ev {
		return atEnd(nil, func(vals []interface{}) ([]interface{}, *h.Ev) {
			out := map[int]int{}
			for i, v := range vals {
				k, x := key(i, iv(v))
				out[k] = x
			}
			return one(out), nil
		})
	}
	add(mkRow("ToMap(v%2->v)", "ToMap", SS|Aggregate, func(e *Env) Op[int, map[int]int] {
		return Op[int, map[int]int](ro.ToMap(func(v int) (int, int) { e.Hit("project"); return v % 2, v }))
	}, toMap(func(i, v int) (int, int) { return v % 2, v })))
	add(mkRow("ToMapWithContext(v%2->v)", "ToMap", SS|Aggregate, func(e *Env) Op[int, map[int]int] {
		return Op[int, map[int]int](ro.ToMapWithContext(func(ctx context.Context, v int) (int, int) { e.Hit("project"); e.Ctx("project", ctx); return v % 2, v }))
	}, toMap(func(i, v int) (int, int) { return v % 2, v })))
	add(mkRow("ToMapI(i%2->v)", "ToMap", SS|Aggregate, func(e *Env) Op[int, map[int]int] {
		return Op[int, map[int]int](ro.ToMapI(func(v int, i int64) (int, int) { e.Hit("project"); return int(i) % 2, v }))
	}, toMap(func(i, v int) (int, int) { return i % 2, v })))
	add(mkRow("ToMapIWithContext(i%2->v)", "ToMap", SS|Aggregate, func(e *Env) Op[int, map[int]int] {
		return Op[int, map[int]int](ro.ToMapIWithContext(func(ctx context.Context, v int, i int64) (int, int) {
			e.Hit("project")
			e.Ctx("project", ctx)
			return int(i) % 2, v
		}))
	}, toMap(func(i, v int) (int, int) { return i % 2, v })))

	// ---------- context ----------
	add(intRow("ContextWithValue", "ContextWithValue", S, func(e *Env) Op[int, int] {
		return Op[int, int](ro.ContextWithValue[int](h.KeyMid, "mid"))
	}, identity))
	add(intRow("ContextWithDeadline(+1h)", "ContextWithDeadline", S, func(e *Env) Op[int, int] {
		return Op[int, int](ro.ContextWithDeadline[int](time.Now().Add(time.Hour)))
	}, identity))
	{
		// ContextReset replaces every item context by design: C09 does not look for the upstream values behind it
		cr := intRow("ContextReset(background)", "ContextReset", S, func(e *Env) Op[int, int] {
			return Op[int, int](ro.ContextReset[int](context.Background()))
		}, identity)
		cr.Class |= CtxBackground
		add(cr)
	}
	add(intRow("ContextMap", "ContextMap", S, func(e *Env) Op[int, int] {
		return Op[int, int](ro.ContextMap[int](func(ctx context.Context) context.Context { e.Hit("project"); return e.Ctx("project", ctx) }))
	}, identity))
	add(intRow("ContextMapI", "ContextMap", SS, func(e *Env) Op[int, int] {
		return Op[int, int](ro.ContextMapI[int](func(ctx context.Context, i int64) context.Context { e.Hit("project"); return e.Ctx("project", ctx) }))
	}, identity))
	for i := range rows {
		if rows[i].Has(Aggregate) && rows[i].ValueCtx == "" {
			rows[i].ValueCtx = "any"
		}
	}
	return rows
}

// FloatRows: the rounding family over a float alphabet with the interesting boundaries.
func FloatRows() []Row {
	var rows []Row
	vals := []interface{}{-1.5, 0.5, 2.5, math.Copysign(0, -1), math.NaN(), math.Inf(1), 1e300}
	fr := func(nm, fam string, op func() func(ro.Observable[float64]) ro.Observable[float64], f func(float64) float64) {
		r := mkRow(nm, fam, Sync, func(e *Env) Op[float64, float64] { return Op[float64, float64](op()) },
			perItem(func(i int, v interface{}) ([]interface{}, *h.Ev) { return one(f(v.(float64))), nil }))
		r.Vals = vals
		rows = append(rows, r)
	}
	fr("Round", "Round", ro.Round, math.Round)
	fr("Abs", "Abs", ro.Abs, math.Abs)
	fr("Floor", "Floor", ro.Floor, math.Floor)
	fr("Ceil", "Ceil", ro.Ceil, math.Ceil)
	fr("Trunc", "Trunc", ro.Trunc, math.Trunc)
	fr("FloorWithPrecision(0)", "FloorWithPrecision", func() func(ro.Observable[float64]) ro.Observable[float64] { return ro.FloorWithPrecision(0) }, math.Floor)
	fr("CeilWithPrecision(0)", "CeilWithPrecision", func() func(ro.Observable[float64]) ro.Observable[float64] { return ro.CeilWithPrecision(0) }, math.Ceil)
	prec := func(round func(float64) float64, places int) func(float64) float64 {
		return func(v float64) float64 {
			if math.IsNaN(v) || math.IsInf(v, 0) || v == 0 {
				return v
			}
			p := math.Pow(10, float64(places))
			s := v * p
			if math.IsInf(s, 0) {
				return v
			}
			return round(s) / p
		}
	}
	fr("FloorWithPrecision(1)", "FloorWithPrecision", func() func(ro.Observable[float64]) ro.Observable[float64] { return ro.FloorWithPrecision(1) }, prec(math.Floor, 1))
	fr("CeilWithPrecision(1)", "CeilWithPrecision", func() func(ro.Observable[float64]) ro.Observable[float64] { return ro.CeilWithPrecision(1) }, prec(math.Ceil, 1))
	fr("Clamp(-1,1)", "Clamp", func() func(ro.Observable[float64]) ro.Observable[float64] { return ro.Clamp(-1.0, 1.0) }, func(v float64) float64 {
		switch {
		case v < -1:
			return -1
		case v > 1:
			return 1
		}
		return v
	})
	return rows
}

// AllRows is the whole single-source catalogue.
func AllRows() []Row {
	var rows []Row
	rows = append(rows, SyncRows()...)
	rows = append(rows, MoreRows()...)
	rows = append(rows, FloatRows()...)
	return rows
}

// ChainRows are the int->int rows usable in pairs (no blocking / re-subscribing rows: their
// composition with an open source never returns from Subscribe, handled by their own drivers).
func ChainRows() []Row {
	var out []Row
	for _, r := range AllRows() {
		if r.IntChain != nil && !r.Has(Blocking) {
			out = append(out, r)
		}
	}
	return out
}
