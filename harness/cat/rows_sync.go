package cat

import (
	"context"
	"math"
	"time"

	"github.com/samber/ro"
	"verif.local/harness/h"
)

func iv(v interface{}) int { return v.(int) }

// SyncRows are the synchronous single-source operators over int input.
func SyncRows() []Row {
	var rows []Row
	add := func(r ...Row) { rows = append(rows, r...) }
	S := Sync
	SS := Sync | Stateful

	// ---------- transformation ----------
	dbl := func(v int) int { return v * 2 }
	add(intRow("Map(x2)", "Map", S, func(e *Env) Op[int, int] {
		return Op[int, int](ro.Map(func(v int) int { e.Hit("project"); return dbl(v) }))
	}, perItem(func(i int, v interface{}) ([]interface{}, *h.Ev) { return one(dbl(iv(v))), nil })))
	add(intRow("MapWithContext(x2)", "Map", S, func(e *Env) Op[int, int] {
		return Op[int, int](ro.MapWithContext(func(ctx context.Context, v int) (context.Context, int) {
			e.Hit("project")
			return e.Ctx("project", ctx), dbl(v)
		}))
	}, perItem(func(i int, v interface{}) ([]interface{}, *h.Ev) { return one(dbl(iv(v))), nil })))
	add(intRow("MapI(v*10+i)", "Map", SS, func(e *Env) Op[int, int] {
		return Op[int, int](ro.MapI(func(v int, i int64) int { e.Hit("project"); return v*10 + int(i) }))
	}, perItem(func(i int, v interface{}) ([]interface{}, *h.Ev) { return one(iv(v)*10 + i), nil })))
	add(intRow("MapIWithContext(v*10+i)", "Map", SS, func(e *Env) Op[int, int] {
		return Op[int, int](ro.MapIWithContext(func(ctx context.Context, v int, i int64) (context.Context, int) {
			e.Hit("project")
			return e.Ctx("project", ctx), v*10 + int(i)
		}))
	}, perItem(func(i int, v interface{}) ([]interface{}, *h.Ev) { return one(iv(v)*10 + i), nil })))
	add(intRow("MapTo(9)", "MapTo", S, func(e *Env) Op[int, int] { return Op[int, int](ro.MapTo[int](9)) },
		perItem(func(i int, v interface{}) ([]interface{}, *h.Ev) { return one(9), nil })))
	// MapErr: fails on value 2 when configured
	mapErrModel := func(failOn int) func(in []h.Ev) []h.Ev {
		return perItem(func(i int, v interface{}) ([]interface{}, *h.Ev) {
			if iv(v) == failOn {
				return nil, eEnd(h.ErrAlt)
			}
			return one(iv(v) + 100), nil
		})
	}
	for _, failOn := range []int{-1, 2} {
		failOn := failOn
		add(intRow(name("MapErr(fail=%d)", failOn), "MapErr", S, func(e *Env) Op[int, int] {
			return Op[int, int](ro.MapErr(func(v int) (int, error) {
				if err := e.HitErr("project"); err != nil {
					return 0, err
				}
				if v == failOn {
					return 0, h.ErrAlt
				}
				return v + 100, nil
			}))
		}, mapErrModel(failOn)))
	}
	add(intRow("MapErrI(fail@1)", "MapErr", SS, func(e *Env) Op[int, int] {
		return Op[int, int](ro.MapErrI(func(v int, i int64) (int, error) {
			if err := e.HitErr("project"); err != nil {
				return 0, err
			}
			if i == 1 {
				return 0, h.ErrAlt
			}
			return v + 100, nil
		}))
	}, perItem(func(i int, v interface{}) ([]interface{}, *h.Ev) {
		if i == 1 {
			return nil, eEnd(h.ErrAlt)
		}
		return one(iv(v) + 100), nil
	})))
	add(intRow("MapErrWithContext", "MapErr", S, func(e *Env) Op[int, int] {
		return Op[int, int](ro.MapErrWithContext(func(ctx context.Context, v int) (int, context.Context, error) {
			if err := e.HitErr("project"); err != nil {
				return 0, ctx, err
			}
			return v + 100, e.Ctx("project", ctx), nil
		}))
	}, perItem(func(i int, v interface{}) ([]interface{}, *h.Ev) { return one(iv(v) + 100), nil })))
	add(intRow("MapErrIWithContext", "MapErr", SS, func(e *Env) Op[int, int] {
		return Op[int, int](ro.MapErrIWithContext(func(ctx context.Context, v int, i int64) (int, context.Context, error) {
			if err := e.HitErr("project"); err != nil {
				return 0, ctx, err
			}
			return v*10 + int(i), e.Ctx("project", ctx), nil
		}))
	}, perItem(func(i int, v interface{}) ([]interface{}, *h.Ev) { return one(iv(v)*10 + i), nil })))

	mkScan := func(f func(i int, acc, v int) int, seed int) func(in []h.Ev) []h.Ev {
		return func(in []h.Ev) []h.Ev {
			vals, end := split(in)
			acc := seed
			var out []interface{}
			for i, v := range vals {
				acc = f(i, acc, iv(v))
				out = append(out, acc)
			}
			return join(out, end)
		}
	}
	add(intRow("Scan(+,10)", "Scan", SS, func(e *Env) Op[int, int] {
		return Op[int, int](ro.Scan(func(acc, v int) int { e.Hit("reduce"); return acc + v }, 10))
	}, mkScan(func(i, acc, v int) int { return acc + v }, 10)))
	add(intRow("ScanWithContext(+,10)", "Scan", SS, func(e *Env) Op[int, int] {
		return Op[int, int](ro.ScanWithContext(func(ctx context.Context, acc, v int) (context.Context, int) {
			e.Hit("reduce")
			return e.Ctx("reduce", ctx), acc + v
		}, 10))
	}, mkScan(func(i, acc, v int) int { return acc + v }, 10)))
	add(intRow("ScanI(acc+v*i,0)", "Scan", SS, func(e *Env) Op[int, int] {
		return Op[int, int](ro.ScanI(func(acc, v int, i int64) int { e.Hit("reduce"); return acc + v*int(i) }, 0))
	}, mkScan(func(i, acc, v int) int { return acc + v*i }, 0)))
	add(intRow("ScanIWithContext(acc+v*i,0)", "Scan", SS, func(e *Env) Op[int, int] {
		return Op[int, int](ro.ScanIWithContext(func(ctx context.Context, acc, v int, i int64) (context.Context, int) {
			e.Hit("reduce")
			return e.Ctx("reduce", ctx), acc + v*int(i)
		}, 0))
	}, mkScan(func(i, acc, v int) int { return acc + v*i }, 0)))

	// BufferWithCount
	for _, n := range []int{1, 2, 3} {
		n := n
		r := mkRow(name("BufferWithCount(%d)", n), "BufferWithCount", SS, func(e *Env) Op[int, []int] {
			return Op[int, []int](ro.BufferWithCount[int](n))
		}, func(in []h.Ev) []h.Ev {
			vals, end := split(in)
			var out []h.Ev
			var buf []int
			for _, v := range vals {
				buf = append(buf, iv(v))
				if len(buf) == n {
					out = append(out, h.Nx(buf))
					buf = nil
				}
			}
			if end != nil {
				if end.K == h.C && len(buf) > 0 {
					out = append(out, h.Nx(buf))
				}
				out = append(out, *end)
			}
			return out
		})
		r.ValueCtx = "any"
		add(r)
	}
	// BufferWithTimeOrCount with a period that never elapses within a scenario: the count side only. Every
	// completion flushes (an empty buffer too); an error is forwarded without a flush.
	for _, n := range []int{1, 2} {
		n := n
		r := mkRow(name("BufferWithTimeOrCount(%d,1h)", n), "BufferWithTimeOrCount", SS, func(e *Env) Op[int, []int] {
			return Op[int, []int](ro.BufferWithTimeOrCount[int](n, time.Hour))
		}, func(in []h.Ev) []h.Ev {
			vals, end := split(in)
			var out []h.Ev
			buf := []int{}
			for _, v := range vals {
				buf = append(buf, iv(v))
				if len(buf) >= n {
					out = append(out, h.Nx(buf))
					buf = []int{}
				}
			}
			if end != nil {
				if end.K == h.C {
					out = append(out, h.Nx(buf))
				}
				out = append(out, *end)
			}
			return out
		})
		r.ValueCtx = "any"
		add(r)
	}
	// two-source operators whose second source never says anything (a hand-made observable that stores nothing),
	// and BufferWithTime with a period that never elapses: the single-source face of TakeUntil, SkipUntil,
	// SampleWhen, ThrottleWhen, BufferWhen, so that the catalogue-driven checks reach their code too
	{
		never := func() ro.Observable[int] {
			return ro.NewObservable(func(ro.Observer[int]) ro.Teardown { return nil })
		}
		terminalOnly := func(in []h.Ev) []h.Ev {
			_, end := split(in)
			if end == nil {
				return nil
			}
			return []h.Ev{*end}
		}
		allAtCompletion := func(in []h.Ev) []h.Ev {
			vals, end := split(in)
			var out []h.Ev
			if end != nil {
				if end.K == h.C {
					buf := []int{}
					for _, v := range vals {
						buf = append(buf, iv(v))
					}
					out = append(out, h.Nx(buf))
				}
				out = append(out, *end)
			}
			return out
		}
		add(intRow("TakeUntil(never)", "TakeUntil", S, func(e *Env) Op[int, int] { return Op[int, int](ro.TakeUntil[int](never())) }, identity))
		add(intRow("SkipUntil(never)", "SkipUntil", SS, func(e *Env) Op[int, int] { return Op[int, int](ro.SkipUntil[int](never())) }, terminalOnly))
		add(intRow("SampleWhen(never)", "SampleWhen", SS, func(e *Env) Op[int, int] { return Op[int, int](ro.SampleWhen[int](never())) }, terminalOnly))
		add(intRow("ThrottleWhen(never)", "ThrottleWhen", SS, func(e *Env) Op[int, int] { return Op[int, int](ro.ThrottleWhen[int](never())) }, terminalOnly))
		bw := mkRow("BufferWhen(never)", "BufferWhen", SS, func(e *Env) Op[int, []int] { return Op[int, []int](ro.BufferWhen[int](never())) }, allAtCompletion)
		bw.ValueCtx = "any"
		add(bw)
		bt := mkRow("BufferWithTime(1h)", "BufferWithTime", SS, func(e *Env) Op[int, []int] { return Op[int, []int](ro.BufferWithTime[int](time.Hour)) }, allAtCompletion)
		bt.ValueCtx = "any"
		add(bt)
	}
	pw := mkRow("Pairwise", "Pairwise", SS, func(e *Env) Op[int, []int] { return Op[int, []int](ro.Pairwise[int]()) },
		func(in []h.Ev) []h.Ev {
			vals, end := split(in)
			var out []h.Ev
			for i := 1; i < len(vals); i++ {
				out = append(out, h.Nx([]int{iv(vals[i-1]), iv(vals[i])}))
			}
			if end != nil {
				out = append(out, *end)
			}
			return out
		})
	add(pw)
	add(intRow("StartWith(8,9)", "StartWith", S|Creates, func(e *Env) Op[int, int] { return Op[int, int](ro.StartWith(8, 9)) },
		func(in []h.Ev) []h.Ev { return append([]h.Ev{h.Nx(8), h.Nx(9)}, in...) }))
	add(intRow("StartWith()", "StartWith", S|Creates, func(e *Env) Op[int, int] { return Op[int, int](ro.StartWith[int]()) }, identity))
	add(intRow("EndWith(8,9)", "EndWith", S|Creates, func(e *Env) Op[int, int] { return Op[int, int](ro.EndWith(8, 9)) },
		atEnd(func(i int, v interface{}) []interface{} { return one(v) }, func(vals []interface{}) ([]interface{}, *h.Ev) {
			return []interface{}{8, 9}, nil
		})))
	add(mkRow("Cast[int->any]", "Cast", S, func(e *Env) Op[int, interface{}] { return Op[int, interface{}](ro.Cast[int, interface{}]()) }, identity))
	add(mkRow("Cast[int->string]", "Cast", S, func(e *Env) Op[int, string] { return Op[int, string](ro.Cast[int, string]()) },
		perItem(func(i int, v interface{}) ([]interface{}, *h.Ev) { return nil, eEnd(castErr) })))
	add(intRow("FlatMap(v->Just(v,v+10))", "FlatMap", S, func(e *Env) Op[int, int] {
		return Op[int, int](ro.FlatMap(func(v int) ro.Observable[int] { e.Hit("project"); return ro.Just(v, v+10) }))
	}, perItem(func(i int, v interface{}) ([]interface{}, *h.Ev) { return []interface{}{iv(v), iv(v) + 10}, nil })))
	add(intRow("FlatMapI(v->Just(i))", "FlatMap", SS, func(e *Env) Op[int, int] {
		return Op[int, int](ro.FlatMapI(func(v int, i int64) ro.Observable[int] { e.Hit("project"); return ro.Just(int(i)) }))
	}, perItem(func(i int, v interface{}) ([]interface{}, *h.Ev) { return one(i), nil })))
	add(intRow("FlatMap(v->Throw if 2)", "FlatMap", S, func(e *Env) Op[int, int] {
		return Op[int, int](ro.FlatMap(func(v int) ro.Observable[int] {
			e.Hit("project")
			if v == 2 {
				return ro.Throw[int](h.ErrAlt)
			}
			return ro.Empty[int]()
		}))
	}, perItem(func(i int, v interface{}) ([]interface{}, *h.Ev) {
		if iv(v) == 2 {
			return nil, eEnd(h.ErrAlt)
		}
		return nil, nil
	})))
	add(intRow("MergeMap(v->Just(v,v+10))", "MergeMap", S, func(e *Env) Op[int, int] {
		return Op[int, int](ro.MergeMap(func(v int) ro.Observable[int] { e.Hit("project"); return ro.Just(v, v+10) }))
	}, perItem(func(i int, v interface{}) ([]interface{}, *h.Ev) { return []interface{}{iv(v), iv(v) + 10}, nil })))
	add(intRow("MergeMapI(v->Just(i))", "MergeMap", SS, func(e *Env) Op[int, int] {
		return Op[int, int](ro.MergeMapI(func(v int, i int64) ro.Observable[int] { e.Hit("project"); return ro.Just(int(i)) }))
	}, perItem(func(i int, v interface{}) ([]interface{}, *h.Ev) { return one(i), nil })))

	// ---------- filtering ----------
	filt := func(p func(i, v int) bool) func(in []h.Ev) []h.Ev {
		return perItem(func(i int, v interface{}) ([]interface{}, *h.Ev) {
			if p(i, iv(v)) {
				return one(v), nil
			}
			return nil, nil
		})
	}
	add(intRow("Filter(odd)", "Filter", S, func(e *Env) Op[int, int] {
		return Op[int, int](ro.Filter(func(v int) bool { e.Hit("predicate"); return odd(v) }))
	}, filt(func(i, v int) bool { return odd(v) })))
	add(intRow("FilterWithContext(odd)", "Filter", S, func(e *Env) Op[int, int] {
		return Op[int, int](ro.FilterWithContext(func(ctx context.Context, v int) (context.Context, bool) {
			e.Hit("predicate")
			return e.Ctx("predicate", ctx), odd(v)
		}))
	}, filt(func(i, v int) bool { return odd(v) })))
	add(intRow("FilterI(i even)", "Filter", SS, func(e *Env) Op[int, int] {
		return Op[int, int](ro.FilterI(func(v int, i int64) bool { e.Hit("predicate"); return i%2 == 0 }))
	}, filt(func(i, v int) bool { return i%2 == 0 })))
	add(intRow("FilterIWithContext(i even)", "Filter", SS, func(e *Env) Op[int, int] {
		return Op[int, int](ro.FilterIWithContext(func(ctx context.Context, v int, i int64) (context.Context, bool) {
			e.Hit("predicate")
			return e.Ctx("predicate", ctx), i%2 == 0
		}))
	}, filt(func(i, v int) bool { return i%2 == 0 })))
	distinct := func(key func(v int) int) func(in []h.Ev) []h.Ev {
		return func(in []h.Ev) []h.Ev {
			vals, end := split(in)
			seen := map[int]bool{}
			var out []interface{}
			for _, v := range vals {
				if !seen[key(iv(v))] {
					seen[key(iv(v))] = true
					out = append(out, v)
				}
			}
			return join(out, end)
		}
	}
	add(intRow("Distinct", "Distinct", SS, func(e *Env) Op[int, int] { return Op[int, int](ro.Distinct[int]()) }, distinct(func(v int) int { return v })))
	add(intRow("DistinctBy(v%2)", "Distinct", SS, func(e *Env) Op[int, int] {
		return Op[int, int](ro.DistinctBy(func(v int) int { e.Hit("key"); return v % 2 }))
	}, distinct(func(v int) int { return v % 2 })))
	add(intRow("DistinctByWithContext(v%2)", "Distinct", SS, func(e *Env) Op[int, int] {
		return Op[int, int](ro.DistinctByWithContext(func(ctx context.Context, v int) (context.Context, int) {
			e.Hit("key")
			return e.Ctx("key", ctx), v % 2
		}))
	}, distinct(func(v int) int { return v % 2 })))
	add(intRow("IgnoreElements", "IgnoreElements", S, func(e *Env) Op[int, int] { return Op[int, int](ro.IgnoreElements[int]()) },
		filt(func(i, v int) bool { return false })))
	for _, n := range []int64{0, 1, 2, 3} {
		n := n
		add(intRow(name("Skip(%d)", n), "Skip", SS, func(e *Env) Op[int, int] { return Op[int, int](ro.Skip[int](n)) },
			filt(func(i, v int) bool { return int64(i) >= n })))
	}
	skipWhile := func(p func(i, v int) bool) func(in []h.Ev) []h.Ev {
		return func(in []h.Ev) []h.Ev {
			vals, end := split(in)
			skipping := true
			var out []interface{}
			for i, v := range vals {
				if skipping && p(i, iv(v)) {
					continue
				}
				skipping = false
				out = append(out, v)
			}
			return join(out, end)
		}
	}
	add(intRow("SkipWhile(odd)", "SkipWhile", SS, func(e *Env) Op[int, int] {
		return Op[int, int](ro.SkipWhile(func(v int) bool { e.Hit("predicate"); return odd(v) }))
	}, skipWhile(func(i, v int) bool { return odd(v) })))
	add(intRow("SkipWhileWithContext(odd)", "SkipWhile", SS, func(e *Env) Op[int, int] {
		return Op[int, int](ro.SkipWhileWithContext(func(ctx context.Context, v int) (context.Context, bool) {
			e.Hit("predicate")
			return e.Ctx("predicate", ctx), odd(v)
		}))
	}, skipWhile(func(i, v int) bool { return odd(v) })))
	add(intRow("SkipWhileI(i<1)", "SkipWhile", SS, func(e *Env) Op[int, int] {
		return Op[int, int](ro.SkipWhileI(func(v int, i int64) bool { e.Hit("predicate"); return i < 1 }))
	}, skipWhile(func(i, v int) bool { return i < 1 })))
	add(intRow("SkipWhileIWithContext(i<1)", "SkipWhile", SS, func(e *Env) Op[int, int] {
		return Op[int, int](ro.SkipWhileIWithContext(func(ctx context.Context, v int, i int64) (context.Context, bool) {
			e.Hit("predicate")
			return e.Ctx("predicate", ctx), i < 1
		}))
	}, skipWhile(func(i, v int) bool { return i < 1 })))
	for _, n := range []int{1, 2, 3} {
		n := n
		add(intRow(name("SkipLast(%d)", n), "SkipLast", SS, func(e *Env) Op[int, int] { return Op[int, int](ro.SkipLast[int](n)) },
			func(in []h.Ev) []h.Ev {
				vals, end := split(in)
				k := len(vals) - n
				if k < 0 {
					k = 0
				}
				return join(vals[:k], end)
			}))
	}
	for _, n := range []int64{0, 1, 2, 3} {
		n := n
		r := intRow(name("Take(%d)", n), "Take", SS, func(e *Env) Op[int, int] { return Op[int, int](ro.Take[int](n)) },
			func(in []h.Ev) []h.Ev {
				if n == 0 {
					return []h.Ev{h.Co()}
				}
				vals, end := split(in)
				if int64(len(vals)) >= n {
					return join(vals[:n], cEnd())
				}
				return join(vals, end)
			})
		if n == 0 {
			r.Class |= NoSubscribe
			r.Subs = func(in []h.Ev) int { return 0 }
		}
		add(r)
	}
	takeWhile := func(p func(i, v int) bool) func(in []h.Ev) []h.Ev {
		return perItem(func(i int, v interface{}) ([]interface{}, *h.Ev) {
			if p(i, iv(v)) {
				return one(v), nil
			}
			return nil, cEnd()
		})
	}
	add(intRow("TakeWhile(odd)", "TakeWhile", SS, func(e *Env) Op[int, int] {
		return Op[int, int](ro.TakeWhile(func(v int) bool { e.Hit("predicate"); return odd(v) }))
	}, takeWhile(func(i, v int) bool { return odd(v) })))
	add(intRow("TakeWhileWithContext(odd)", "TakeWhile", SS, func(e *Env) Op[int, int] {
		return Op[int, int](ro.TakeWhileWithContext(func(ctx context.Context, v int) (context.Context, bool) {
			e.Hit("predicate")
			return e.Ctx("predicate", ctx), odd(v)
		}))
	}, takeWhile(func(i, v int) bool { return odd(v) })))
	add(intRow("TakeWhileI(i<2)", "TakeWhile", SS, func(e *Env) Op[int, int] {
		return Op[int, int](ro.TakeWhileI(func(v int, i int64) bool { e.Hit("predicate"); return i < 2 }))
	}, takeWhile(func(i, v int) bool { return i < 2 })))
	add(intRow("TakeWhileIWithContext(i<2)", "TakeWhile", SS, func(e *Env) Op[int, int] {
		return Op[int, int](ro.TakeWhileIWithContext(func(ctx context.Context, v int, i int64) (context.Context, bool) {
			e.Hit("predicate")
			return e.Ctx("predicate", ctx), i < 2
		}))
	}, takeWhile(func(i, v int) bool { return i < 2 })))
	for _, n := range []int{0, 1, 2, 3} {
		n := n
		r := intRow(name("TakeLast(%d)", n), "TakeLast", SS|Aggregate, func(e *Env) Op[int, int] { return Op[int, int](ro.TakeLast[int](n)) },
			func(in []h.Ev) []h.Ev {
				if n == 0 {
					return []h.Ev{h.Co()}
				}
				return atEnd(nil, func(vals []interface{}) ([]interface{}, *h.Ev) {
					k := len(vals) - n
					if k < 0 {
						k = 0
					}
					return vals[k:], nil
				})(in)
			})
		if n == 0 {
			r.Class |= NoSubscribe
			r.Subs = func(in []h.Ev) int { return 0 }
		}
		add(r)
	}
	firstModel := func(p func(i, v int) bool, empty error) func(in []h.Ev) []h.Ev {
		return func(in []h.Ev) []h.Ev {
			vals, end := split(in)
			for i, v := range vals {
				if p(i, iv(v)) {
					return []h.Ev{h.Nx(v), h.Co()}
				}
			}
			if end == nil {
				return nil
			}
			if end.K == h.E {
				return []h.Ev{*end}
			}
			return []h.Ev{h.Er(empty)}
		}
	}
	add(intRow("Head", "Head", SS, func(e *Env) Op[int, int] { return Op[int, int](ro.Head[int]()) },
		firstModel(func(i, v int) bool { return true }, ro.ErrHeadEmpty)))
	add(intRow("First(even)", "First", SS, func(e *Env) Op[int, int] {
		return Op[int, int](ro.First(func(v int) bool { e.Hit("predicate"); return !odd(v) }))
	}, firstModel(func(i, v int) bool { return !odd(v) }, ro.ErrFirstEmpty)))
	add(intRow("FirstWithContext(even)", "First", SS, func(e *Env) Op[int, int] {
		return Op[int, int](ro.FirstWithContext(func(ctx context.Context, v int) (context.Context, bool) {
			e.Hit("predicate")
			return e.Ctx("predicate", ctx), !odd(v)
		}))
	}, firstModel(func(i, v int) bool { return !odd(v) }, ro.ErrFirstEmpty)))
	add(intRow("FirstI(i>=1)", "First", SS, func(e *Env) Op[int, int] {
		return Op[int, int](ro.FirstI(func(v int, i int64) bool { e.Hit("predicate"); return i >= 1 }))
	}, firstModel(func(i, v int) bool { return i >= 1 }, ro.ErrFirstEmpty)))
	add(intRow("FirstIWithContext(i>=1)", "First", SS, func(e *Env) Op[int, int] {
		return Op[int, int](ro.FirstIWithContext(func(ctx context.Context, v int, i int64) (context.Context, bool) {
			e.Hit("predicate")
			return e.Ctx("predicate", ctx), i >= 1
		}))
	}, firstModel(func(i, v int) bool { return i >= 1 }, ro.ErrFirstEmpty)))
	lastModel := func(p func(i, v int) bool, empty error) func(in []h.Ev) []h.Ev {
		return atEnd(nil, func(vals []interface{}) ([]interface{}, *h.Ev) {
			var last interface{}
			has := false
			for i, v := range vals {
				if p(i, iv(v)) {
					last, has = v, true
				}
			}
			if !has {
				return nil, eEnd(empty)
			}
			return one(last), nil
		})
	}
	add(intRow("Tail", "Tail", SS|Aggregate, func(e *Env) Op[int, int] { return Op[int, int](ro.Tail[int]()) },
		lastModel(func(i, v int) bool { return true }, ro.ErrTailEmpty)))
	add(intRow("Last(odd)", "Last", SS|Aggregate, func(e *Env) Op[int, int] {
		return Op[int, int](ro.Last(func(v int) bool { e.Hit("predicate"); return odd(v) }))
	}, lastModel(func(i, v int) bool { return odd(v) }, ro.ErrLastEmpty)))
	add(intRow("LastWithContext(odd)", "Last", SS|Aggregate, func(e *Env) Op[int, int] {
		return Op[int, int](ro.LastWithContext(func(ctx context.Context, v int) (context.Context, bool) {
			e.Hit("predicate")
			return e.Ctx("predicate", ctx), odd(v)
		}))
	}, lastModel(func(i, v int) bool { return odd(v) }, ro.ErrLastEmpty)))
	add(intRow("LastI(i<=1)", "Last", SS|Aggregate, func(e *Env) Op[int, int] {
		return Op[int, int](ro.LastI(func(v int, i int64) bool { e.Hit("predicate"); return i <= 1 }))
	}, lastModel(func(i, v int) bool { return i <= 1 }, ro.ErrLastEmpty)))
	add(intRow("LastIWithContext(i<=1)", "Last", SS|Aggregate, func(e *Env) Op[int, int] {
		return Op[int, int](ro.LastIWithContext(func(ctx context.Context, v int, i int64) (context.Context, bool) {
			e.Hit("predicate")
			return e.Ctx("predicate", ctx), i <= 1
		}))
	}, lastModel(func(i, v int) bool { return i <= 1 }, ro.ErrLastEmpty)))
	for _, n := range []int{0, 1, 2} {
		n := n
		add(intRow(name("ElementAt(%d)", n), "ElementAt", SS, func(e *Env) Op[int, int] { return Op[int, int](ro.ElementAt[int](n)) },
			firstModel(func(i, v int) bool { return i == n }, ro.ErrElementAtNotFound)))
		add(intRow(name("ElementAtOrDefault(%d,77)", n), "ElementAtOrDefault", SS|Creates, func(e *Env) Op[int, int] {
			return Op[int, int](ro.ElementAtOrDefault[int](int64(n), 77))
		}, func(in []h.Ev) []h.Ev {
			vals, end := split(in)
			if len(vals) > n {
				return []h.Ev{h.Nx(vals[n]), h.Co()}
			}
			if end == nil {
				return nil
			}
			if end.K == h.E {
				return []h.Ev{*end}
			}
			return []h.Ev{h.Nx(77), h.Co()}
		}))
	}

	// ---------- conditional ----------
	// All answers at completion (the documentation promises the answer, not an early one).
	allModel := func(p func(i, v int) bool) func(in []h.Ev) []h.Ev {
		return atEnd(nil, func(vals []interface{}) ([]interface{}, *h.Ev) {
			for i, v := range vals {
				if !p(i, iv(v)) {
					return one(false), nil
				}
			}
			return one(true), nil
		})
	}
	add(mkRow("All(odd)", "All", SS|Aggregate, func(e *Env) Op[int, bool] {
		return Op[int, bool](ro.All(func(v int) bool { e.Hit("predicate"); return odd(v) }))
	}, allModel(func(i, v int) bool { return odd(v) })))
	add(mkRow("AllWithContext(odd)", "All", SS|Aggregate, func(e *Env) Op[int, bool] {
		return Op[int, bool](ro.AllWithContext(func(ctx context.Context, v int) bool { e.Hit("predicate"); e.Ctx("predicate", ctx); return odd(v) }))
	}, allModel(func(i, v int) bool { return odd(v) })))
	add(mkRow("AllI(i<2)", "All", SS|Aggregate, func(e *Env) Op[int, bool] {
		return Op[int, bool](ro.AllI(func(v int, i int64) bool { e.Hit("predicate"); return i < 2 }))
	}, allModel(func(i, v int) bool { return i < 2 })))
	add(mkRow("AllIWithContext(i<2)", "All", SS|Aggregate, func(e *Env) Op[int, bool] {
		return Op[int, bool](ro.AllIWithContext(func(ctx context.Context, v int, i int64) bool {
			e.Hit("predicate")
			e.Ctx("predicate", ctx)
			return i < 2
		}))
	}, allModel(func(i, v int) bool { return i < 2 })))
	containsModel := func(p func(i, v int) bool) func(in []h.Ev) []h.Ev {
		return func(in []h.Ev) []h.Ev {
			vals, end := split(in)
			for i, v := range vals {
				if p(i, iv(v)) {
					return []h.Ev{h.Nx(true), h.Co()}
				}
			}
			if end == nil {
				return nil
			}
			if end.K == h.E {
				return []h.Ev{*end}
			}
			return []h.Ev{h.Nx(false), h.Co()}
		}
	}
	add(mkRow("Contains(==2)", "Contains", SS|Creates, func(e *Env) Op[int, bool] {
		return Op[int, bool](ro.Contains(func(v int) bool { e.Hit("predicate"); return v == 2 }))
	}, containsModel(func(i, v int) bool { return v == 2 })))
	add(mkRow("ContainsWithContext(==2)", "Contains", SS|Creates, func(e *Env) Op[int, bool] {
		return Op[int, bool](ro.ContainsWithContext(func(ctx context.Context, v int) bool { e.Hit("predicate"); e.Ctx("predicate", ctx); return v == 2 }))
	}, containsModel(func(i, v int) bool { return v == 2 })))
	add(mkRow("ContainsI(i==1)", "Contains", SS|Creates, func(e *Env) Op[int, bool] {
		return Op[int, bool](ro.ContainsI(func(v int, i int64) bool { e.Hit("predicate"); return i == 1 }))
	}, containsModel(func(i, v int) bool { return i == 1 })))
	add(mkRow("ContainsIWithContext(i==1)", "Contains", SS|Creates, func(e *Env) Op[int, bool] {
		return Op[int, bool](ro.ContainsIWithContext(func(ctx context.Context, v int, i int64) bool {
			e.Hit("predicate")
			e.Ctx("predicate", ctx)
			return i == 1
		}))
	}, containsModel(func(i, v int) bool { return i == 1 })))
	findModel := func(p func(i, v int) bool) func(in []h.Ev) []h.Ev {
		return func(in []h.Ev) []h.Ev {
			vals, end := split(in)
			for i, v := range vals {
				if p(i, iv(v)) {
					return []h.Ev{h.Nx(v), h.Co()}
				}
			}
			if end == nil {
				return nil
			}
			return []h.Ev{*end}
		}
	}
	add(intRow("Find(==2)", "Find", SS, func(e *Env) Op[int, int] {
		return Op[int, int](ro.Find(func(v int) bool { e.Hit("predicate"); return v == 2 }))
	}, findModel(func(i, v int) bool { return v == 2 })))
	add(intRow("FindWithContext(==2)", "Find", SS, func(e *Env) Op[int, int] {
		return Op[int, int](ro.FindWithContext(func(ctx context.Context, v int) bool { e.Hit("predicate"); e.Ctx("predicate", ctx); return v == 2 }))
	}, findModel(func(i, v int) bool { return v == 2 })))
	add(intRow("FindI(i==1)", "Find", SS, func(e *Env) Op[int, int] {
		return Op[int, int](ro.FindI(func(v int, i int64) bool { e.Hit("predicate"); return i == 1 }))
	}, findModel(func(i, v int) bool { return i == 1 })))
	add(intRow("FindIWithContext(i==1)", "Find", SS, func(e *Env) Op[int, int] {
		return Op[int, int](ro.FindIWithContext(func(ctx context.Context, v int, i int64) bool {
			e.Hit("predicate")
			e.Ctx("predicate", ctx)
			return i == 1
		}))
	}, findModel(func(i, v int) bool { return i == 1 })))
	die := intRow("DefaultIfEmpty(77)", "DefaultIfEmpty", SS|Creates, func(e *Env) Op[int, int] { return Op[int, int](ro.DefaultIfEmpty(77)) },
		atEnd(func(i int, v interface{}) []interface{} { return one(v) }, func(vals []interface{}) ([]interface{}, *h.Ev) {
			if len(vals) == 0 {
				return one(77), nil
			}
			return nil, nil
		}))
	die.Class |= CtxBackground
	add(die)

	// ---------- math / aggregation ----------
	add(mkRow("Count", "Count", SS|Aggregate, func(e *Env) Op[int, int64] { return Op[int, int64](ro.Count[int]()) },
		atEnd(nil, func(vals []interface{}) ([]interface{}, *h.Ev) { return one(int64(len(vals))), nil })))
	add(intRow("Sum", "Sum", SS|Aggregate, func(e *Env) Op[int, int] { return Op[int, int](ro.Sum[int]()) },
		atEnd(nil, func(vals []interface{}) ([]interface{}, *h.Ev) {
			s := 0
			for _, v := range vals {
				s += iv(v)
			}
			return one(s), nil
		})))
	add(mkRow("Average", "Average", SS|Aggregate, func(e *Env) Op[int, float64] { return Op[int, float64](ro.Average[int]()) },
		atEnd(nil, func(vals []interface{}) ([]interface{}, *h.Ev) {
			s := 0.0
			for _, v := range vals {
				s += float64(iv(v))
			}
			if len(vals) == 0 {
				return one(math.NaN()), nil
			}
			return one(s / float64(len(vals))), nil
		})))
	add(intRow("Min", "Min", SS|Aggregate, func(e *Env) Op[int, int] { return Op[int, int](ro.Min[int]()) },
		atEnd(nil, func(vals []interface{}) ([]interface{}, *h.Ev) {
			if len(vals) == 0 {
				return nil, nil
			}
			m := iv(vals[0])
			for _, v := range vals {
				if iv(v) < m {
					m = iv(v)
				}
			}
			return one(m), nil
		})))
	mx := intRow("Max", "Max", SS|Aggregate, func(e *Env) Op[int, int] { return Op[int, int](ro.Max[int]()) },
		atEnd(nil, func(vals []interface{}) ([]interface{}, *h.Ev) {
			if len(vals) == 0 {
				return one(0), nil // pinned by TestOperatorMathMax: zero value on an empty source
			}
			m := iv(vals[0])
			for _, v := range vals {
				if iv(v) > m {
					m = iv(v)
				}
			}
			return one(m), nil
		}))
	mx.Pinned = "Max(empty) emits the zero value (pinned by the repository's test); "
	add(mx)
	add(intRow("Clamp(2,2)", "Clamp", S, func(e *Env) Op[int, int] { return Op[int, int](ro.Clamp(2, 2)) },
		perItem(func(i int, v interface{}) ([]interface{}, *h.Ev) { return one(2), nil })))
	add(intRow("Clamp(0,1)", "Clamp", S, func(e *Env) Op[int, int] { return Op[int, int](ro.Clamp(0, 1)) },
		perItem(func(i int, v interface{}) ([]interface{}, *h.Ev) {
			x := iv(v)
			if x > 1 {
				x = 1
			}
			if x < 0 {
				x = 0
			}
			return one(x), nil
		})))
	reduceModel := func(f func(i, acc, v int) int, seed int) func(in []h.Ev) []h.Ev {
		return atEnd(nil, func(vals []interface{}) ([]interface{}, *h.Ev) {
			acc := seed
			for i, v := range vals {
				acc = f(i, acc, iv(v))
			}
			return one(acc), nil
		})
	}
	add(intRow("Reduce(+,10)", "Reduce", SS|Aggregate, func(e *Env) Op[int, int] {
		return Op[int, int](ro.Reduce(func(acc, v int) int { e.Hit("accumulator"); return acc + v }, 10))
	}, reduceModel(func(i, acc, v int) int { return acc + v }, 10)))
	add(intRow("ReduceWithContext(+,10)", "Reduce", SS|Aggregate, func(e *Env) Op[int, int] {
		return Op[int, int](ro.ReduceWithContext(func(ctx context.Context, acc, v int) (context.Context, int) {
			e.Hit("accumulator")
			return e.Ctx("accumulator", ctx), acc + v
		}, 10))
	}, reduceModel(func(i, acc, v int) int { return acc + v }, 10)))
	add(intRow("ReduceI(acc+v*i,0)", "Reduce", SS|Aggregate, func(e *Env) Op[int, int] {
		return Op[int, int](ro.ReduceI(func(acc, v int, i int64) int { e.Hit("accumulator"); return acc + v*int(i) }, 0))
	}, reduceModel(func(i, acc, v int) int { return acc + v*i }, 0)))
	add(intRow("ReduceIWithContext(acc+v*i,0)", "Reduce", SS|Aggregate, func(e *Env) Op[int, int] {
		return Op[int, int](ro.ReduceIWithContext(func(ctx context.Context, acc, v int, i int64) (context.Context, int) {
			e.Hit("accumulator")
			return e.Ctx("accumulator", ctx), acc + v*int(i)
		}, 0))
	}, reduceModel(func(i, acc, v int) int { return acc + v*i }, 0)))
	for i := range rows {
		if rows[i].Has(Aggregate) && rows[i].ValueCtx == "" {
			rows[i].ValueCtx = "any"
		}
	}
	return rows
}

var castErr = castError{}

type castError struct{}

func (castError) Error() string { return "cast error" }
func (castError) Is(target error) bool {
	_, ok := target.(castError)
	return ok || target != nil && len(target.Error()) >= 4 && containsCast(target.Error())
}

func containsCast(s string) bool {
	for i := 0; i+4 <= len(s); i++ {
		if s[i:i+4] == "cast" || s[i:i+4] == "Cast" {
			return true
		}
	}
	return false
}
