// Package cat is the operator catalogue: one Row per operator configuration, with a constructor that
// builds the real pipeline over an instrumented source, and an executable reference model - a pure
// function from the input notification sequence to the expected output sequence.
package cat

import (
	"context"
	"fmt"

	"github.com/samber/ro"
	"verif.local/harness/h"
)

// Class tags.
type Class uint32

const (
	Sync          Class = 1 << iota // delivers on the caller's goroutine, before Next returns
	Stateful                        // keeps per-subscription state (counters, buffers, seen-sets)
	Aggregate                       // emits at completion only
	Timed                           // needs the virtual clock
	HandOff                         // moves delivery to another goroutine
	Resubscribes                    // subscribes to its source more than once by definition
	Blocking                        // waits inside its subscribe function
	NoSubscribe                     // may never subscribe to the source (count 0)
	HigherOrder                     // emits observables
	CtxSubscriber                   // values it creates itself carry the subscriber context only
	CtxBackground                   // known to deliver with a fresh background context (finding, not checked)
	Creation                        // ignores its input (creation operator)
	Creates                         // also emits values of its own (prefixes, defaults, fallbacks, terminal-derived values)
)

// Fault describes one injected failure (C07).
type Fault struct {
	Slot  string
	Index int // invocation index of that slot within the run
	Kind  int // 0 panic(error), 1 panic(string), 2 returned error
}

// PanicString is the value of a non-error panic.
const PanicString = "verif: panic with a string"

// Env is the per-run environment the callbacks of a row talk to.
type Env struct {
	Fault    *Fault
	Hits     map[string]int // invocations per slot
	Order    []string       // slots in first-use order
	Fired    bool
	MidMark  bool // WithContext callbacks attach KeyMid
	CtxNil   []string
	ErrSlots map[string]bool // slots that can return an error
	OnFire   func()          // called right before an injected fault is raised
}

// NewEnv makes an environment.
func NewEnv() *Env { return &Env{Hits: map[string]int{}, ErrSlots: map[string]bool{}} }

//go:norace
func (e *Env) count(slot string) int {
	n, ok := e.Hits[slot]
	if !ok {
		e.Order = append(e.Order, slot)
	}
	e.Hits[slot] = n + 1
	return n
}

// Hit is called at the top of every user callback of a catalogue operator.
func (e *Env) Hit(slot string) {
	n := e.count(slot)
	if f := e.Fault; f != nil && !e.Fired && f.Slot == slot && f.Index == n && f.Kind != 2 {
		e.Fired = true
		if e.OnFire != nil {
			e.OnFire()
		}
		if f.Kind == 0 {
			panic(h.ErrCb)
		}
		panic(PanicString)
	}
}

// HitErr is Hit for callbacks that can also return an error.
func (e *Env) HitErr(slot string) error {
	e.ErrSlots[slot] = true
	n := e.count(slot)
	if f := e.Fault; f != nil && !e.Fired && f.Slot == slot && f.Index == n {
		e.Fired = true
		if e.OnFire != nil {
			e.OnFire()
		}
		switch f.Kind {
		case 0:
			panic(h.ErrCb)
		case 1:
			panic(PanicString)
		default:
			return h.ErrCb
		}
	}
	return nil
}

// Ctx is called by context-aware callbacks: it notes nil contexts and optionally attaches KeyMid.
func (e *Env) Ctx(slot string, ctx context.Context) context.Context {
	if ctx == nil {
		e.CtxNil = append(e.CtxNil, slot)
		return ctx
	}
	if e.MidMark {
		return context.WithValue(ctx, h.KeyMid, "mid")
	}
	return ctx
}

// SrcKind selects the instrumented source of a run.
type SrcKind int

const (
	SrcScript SrcKind = iota
	SrcPushed
)

// Setup says how to start a row.
type Setup struct {
	Env  *Env
	Kind SrcKind
	Word []h.Ev
	// WordFn, if set, replaces Word: the script source asks it at every subscription.
	WordFn func() []h.Ev
	Mode   h.Mode
	Ctx    context.Context // nil: plain Subscribe
	Rec    *h.Rec
	Inner  func(r *h.Rec) // called for every inner recorder a higher-order row creates
}

// Live is a started pipeline.
type Live struct {
	Src  *h.Src
	Emit func(e h.Ev) bool // pushed sources only
	Sub  ro.Subscription
	// Resub subscribes the same pipeline value again with a fresh recorder.
	Resub func(rec *h.Rec) ro.Subscription
}

// Row is one catalogue entry.
type Row struct {
	Name   string
	Family string
	Class  Class
	Vals   []interface{} // input alphabet (default 1, 2)
	// Start builds source -> operator -> recorder and subscribes.
	Start func(s Setup) *Live
	// Model maps a legal input word (possibly without terminal) to the expected output.
	Model func(in []h.Ev) []h.Ev
	// IntChain is set for int->int rows: used to build pairs.
	IntChain func(e *Env) func(ro.Observable[int]) ro.Observable[int]
	// Subs is the expected number of subscriptions to the source for a given input (nil: exactly 1).
	Subs func(in []h.Ev) int
	// Pinned names clauses of the model that only pin current behaviour.
	Pinned string
	// MaxTime for timed rows (virtual ns).
	MaxTime int64
	// ValueCtx: "same" (default: an output value carries the item marker of the input value it
	// derives from), "any" (some contributing item), "none" (subscriber context only).
	ValueCtx string
}

func (r Row) Has(c Class) bool { return r.Class&c != 0 }

// Op is a typed operator.
type Op[T, R any] func(ro.Observable[T]) ro.Observable[R]

func start[T, R any](mk func(e *Env) Op[T, R], s Setup) *Live {
	src := h.NewSrc("src")
	var obs ro.Observable[T]
	l := &Live{Src: src}
	switch s.Kind {
	case SrcPushed:
		o, p := h.Pushed[T](src, s.Mode)
		obs = o
		l.Emit = p.Emit
	default:
		if s.WordFn != nil {
			obs = h.ScriptFn[T](src, s.Mode, s.WordFn)
		} else {
			obs = h.Script[T](src, s.Mode, s.Word)
		}
	}
	env := s.Env
	if env == nil {
		env = NewEnv()
	}
	out := mk(env)(obs)
	subscribe := func(rec *h.Rec) ro.Subscription {
		if s.Ctx != nil {
			return out.SubscribeWithContext(s.Ctx, h.Observer[R](rec))
		}
		return out.Subscribe(h.Observer[R](rec))
	}
	l.Resub = subscribe
	l.Sub = subscribe(s.Rec)
	return l
}

// mkRow builds a Row from a typed operator constructor.
func mkRow[T, R any](name, family string, class Class, mk func(e *Env) Op[T, R], model func(in []h.Ev) []h.Ev) Row {
	return Row{
		Name: name, Family: family, Class: class,
		Start: func(s Setup) *Live { return start(mk, s) },
		Model: model,
	}
}

// intRow builds an int->int row (chainable).
func intRow(name, family string, class Class, mk func(e *Env) Op[int, int], model func(in []h.Ev) []h.Ev) Row {
	r := mkRow(name, family, class, mk, model)
	r.IntChain = func(e *Env) func(ro.Observable[int]) ro.Observable[int] { return mk(e) }
	return r
}

// Pair composes two chainable rows.
func Pair(a, b Row) Row {
	mk := func(e *Env) Op[int, int] {
		fa, fb := a.IntChain(e), b.IntChain(e)
		return func(o ro.Observable[int]) ro.Observable[int] { return fb(fa(o)) }
	}
	r := intRow(a.Name+" | "+b.Name, a.Family+"|"+b.Family, a.Class|b.Class, mk, func(in []h.Ev) []h.Ev { return b.Model(a.Model(in)) })
	if a.Subs != nil || b.Subs != nil {
		r.Subs = func(in []h.Ev) int {
			// b's subscriptions to a
			nb := 1
			if b.Subs != nil {
				nb = b.Subs(a.Model(in))
			}
			na := 1
			if a.Subs != nil {
				na = a.Subs(in)
			}
			return na * nb
		}
	}
	if a.Pinned != "" || b.Pinned != "" {
		r.Pinned = a.Pinned + b.Pinned
	}
	if a.MaxTime > r.MaxTime {
		r.MaxTime = a.MaxTime
	}
	if b.MaxTime > r.MaxTime {
		r.MaxTime = b.MaxTime
	}
	if a.ValueCtx == "none" || b.ValueCtx == "none" {
		r.ValueCtx = "none"
	} else if a.ValueCtx == "any" || b.ValueCtx == "any" {
		r.ValueCtx = "any"
	}
	return r
}

// ---- model helpers ----

// split separates the values of a legal word from its terminal (nil if open).
func split(in []h.Ev) (vals []interface{}, end *h.Ev) {
	for i := range in {
		if in[i].K == h.N {
			vals = append(vals, in[i].V)
		} else {
			e := in[i]
			return vals, &e
		}
	}
	return vals, nil
}

func join(vals []interface{}, end *h.Ev) []h.Ev {
	out := make([]h.Ev, 0, len(vals)+1)
	for _, v := range vals {
		out = append(out, h.Nx(v))
	}
	if end != nil {
		out = append(out, *end)
	}
	return out
}

func cEnd() *h.Ev { e := h.Co(); return &e }
func eEnd(err error) *h.Ev {
	e := h.Er(err)
	return &e
}

// stateless1 builds the model of a 1:1-or-filtering operator: f returns the outputs for one value and
// optionally a terminal that ends the stream right after them.
func perItem(f func(i int, v interface{}) (outs []interface{}, end *h.Ev)) func(in []h.Ev) []h.Ev {
	return func(in []h.Ev) []h.Ev {
		vals, end := split(in)
		var out []h.Ev
		for i, v := range vals {
			o, e := f(i, v)
			for _, x := range o {
				out = append(out, h.Nx(x))
			}
			if e != nil {
				return append(out, *e)
			}
		}
		if end != nil {
			out = append(out, *end)
		}
		return out
	}
}

// atEnd builds the model of an operator that reacts to completion: onC receives all values and returns
// what to emit and how to end. Errors pass through after the per-item output.
func atEnd(item func(i int, v interface{}) []interface{}, onC func(vals []interface{}) ([]interface{}, *h.Ev)) func(in []h.Ev) []h.Ev {
	return func(in []h.Ev) []h.Ev {
		vals, end := split(in)
		var out []h.Ev
		if item != nil {
			for i, v := range vals {
				for _, x := range item(i, v) {
					out = append(out, h.Nx(x))
				}
			}
		}
		if end == nil {
			return out
		}
		if end.K == h.E {
			return append(out, *end)
		}
		o, e := onC(vals)
		for _, x := range o {
			out = append(out, h.Nx(x))
		}
		if e == nil {
			e = cEnd()
		}
		return append(out, *e)
	}
}

func identity(in []h.Ev) []h.Ev { return append([]h.Ev{}, in...) }

func one(v interface{}) []interface{} { return []interface{}{v} }

func odd(v int) bool { return v%2 != 0 }

func name(f string, a ...interface{}) string { return fmt.Sprintf(f, a...) }
